"""Source-level canonicalisation applied to every module before the rules look at it.

The rules speak about the functions that exist on the pinned tree (known_functions.json: the vocabulary).  A later,
behaviour-preserving refactoring typically (1) extracts a few statements into a NEW helper function or method,
(2) unrolls/rolls a two-element loop, (3) introduces a local alias.  None of these changes behaviour, and none should
change a verdict, so they are undone here, on the syntax tree, before any rule runs:

  H  a call to a repo function that is NOT in the vocabulary is replaced by the helper's body
     - expression helpers (`return EXPR`, possibly after single-assignment temporaries) are substituted in place;
     - search helpers `for x in D: if C: return False` / `return True` become `all(not C for x in D)` (resp. any);
     - statement helpers are spliced in with their locals renamed apart, `return E` turned into an assignment to the
       caller's target (returns must be in tail position; returns inside loops are not inlinable);
     helpers that cannot be inlined are left as calls (the rules then see an unknown call and stay undecided).
  U  `for x in (a, b): BODY` over a literal tuple/list of at most 4 elements, BODY without break/continue and without
     rebinding x, is unrolled.
  E  `local.extend([a, b])` with a literal display becomes `local.append(a); local.append(b)`.
  C  `x = [elt for t in it if c]` whose elt / condition calls a statement helper is written out as the loop it
     abbreviates (so that the helper can be spliced).
  A  a local bound exactly once, at the top level of the function, to a pure attribute path (`G = model.G`,
     `edges = self._edges`) is replaced by that path at its uses - provided nothing in the function (or in a method of
     the same class it calls through `self`) re-binds the path.

Nothing here depends on line numbers or on the spelling of the existing code; on the pinned tree neither rule has
an instance (checked by the self-test: the normaliser reports 0 rewrites on the unchanged tree)."""
from __future__ import annotations

import ast
import copy
import json
import os
from typing import Dict, List, Optional

VERIF = os.path.dirname(os.path.dirname(os.path.abspath(__file__)))
MAX_HELPER_STMTS = 40
MAX_ROUNDS = 4


_LIB_NAMES = None


def _library_method_names() -> set:
    """public method / attribute names of networkx graphs, numpy arrays, random.Random and the collections containers
    (frozen list, gcmstatic/library_method_names.json): `g.has_edge(..)` on some object is far more likely the library's
    method than a new repo method of the same name"""
    global _LIB_NAMES
    if _LIB_NAMES is None:
        try:
            _LIB_NAMES = set(json.load(open(os.path.join(os.path.dirname(os.path.abspath(__file__)), "library_method_names.json"))))
        except Exception:
            _LIB_NAMES = set()
    return _LIB_NAMES


def load_vocabulary() -> set:
    p = os.path.join(VERIF, "known_functions.json")
    try:
        return set(json.load(open(p))["functions"])
    except Exception:
        return set()


def load_locals() -> Dict[str, set]:
    p = os.path.join(VERIF, "known_functions.json")
    try:
        return {k: set(v) for k, v in json.load(open(p)).get("locals", {}).items()}
    except Exception:
        return {}


PURE_BUILTINS = {"len", "int", "float", "abs", "min", "max", "sum", "tuple", "sorted", "range", "str", "pow", "bool", "set", "list", "frozenset", "round"}


def _pure_temp_value(e) -> bool:
    """an expression whose evaluation has no effect and whose value does not depend on WHEN it is evaluated
    relative to the single statement that follows (reads only; no calls but a few builtins on such reads)"""
    for x in ast.walk(e):
        if isinstance(x, ast.Call):
            if not (isinstance(x.func, ast.Name) and x.func.id in PURE_BUILTINS) or x.keywords and any(k.arg is None for k in x.keywords):
                return False
        if isinstance(x, (ast.Lambda, ast.ListComp, ast.SetComp, ast.DictComp, ast.GeneratorExp, ast.NamedExpr, ast.Await, ast.Yield, ast.YieldFrom, ast.Starred,
                          ast.List, ast.Dict, ast.Set, ast.JoinedStr)):
            return False
    return True


def _read_comes_first(stmt, name: str) -> bool:
    """In `stmt` (a simple statement, or the header of an if / for) the single read of `name` is evaluated
    unconditionally and before any call is made: an expression WITH effects can be moved from the statement before
    into the place of that read without changing the order of effects."""
    def kids(n):
        if isinstance(n, ast.Call):
            return [n.func] + list(n.args) + [k.value for k in n.keywords]
        if isinstance(n, ast.BinOp):
            return [n.left, n.right]
        if isinstance(n, ast.Compare) and len(n.ops) == 1:
            return [n.left] + list(n.comparators)
        if isinstance(n, (ast.Tuple, ast.List, ast.Set)):
            return list(n.elts)
        if isinstance(n, ast.Dict) and all(k is not None for k in n.keys):
            return [x for kv in zip(n.keys, n.values) for x in kv]
        if isinstance(n, ast.Subscript):
            return [n.value, n.slice]
        if isinstance(n, (ast.Attribute, ast.Starred)):
            return [n.value]
        if isinstance(n, ast.UnaryOp):
            return [n.operand]
        if isinstance(n, ast.JoinedStr):
            return list(n.values)
        if isinstance(n, ast.FormattedValue):
            return [n.value] + ([n.format_spec] if n.format_spec is not None else [])
        if isinstance(n, ast.Slice):
            return [x for x in (n.lower, n.upper, n.step) if x is not None]
        return None

    def scan(n) -> str:
        if isinstance(n, ast.Name):
            return "found" if n.id == name and isinstance(n.ctx, ast.Load) else "clean"
        if isinstance(n, ast.Constant):
            return "clean"
        ks = kids(n)
        if isinstance(n, (ast.ListComp, ast.SetComp, ast.GeneratorExp, ast.DictComp)) and not isinstance(n, ast.GeneratorExp):
            # the first iterable of a comprehension is evaluated first, once
            r = scan(n.generators[0].iter)
            if r == "found":
                return r
        if ks is None:
            inside = list(ast.walk(n))
            if any(isinstance(x, ast.Name) and x.id == name for x in inside) or any(isinstance(x, (ast.Call, ast.Await, ast.Yield, ast.YieldFrom)) for x in inside):
                return "dirty"
            return "clean"
        for k in ks:
            r = scan(k)
            if r != "clean":
                return r
        return "dirty" if isinstance(n, ast.Call) else "clean"

    if isinstance(stmt, (ast.Return, ast.Expr)):
        e = stmt.value
    elif isinstance(stmt, ast.Assign):
        e = stmt.value
    elif isinstance(stmt, ast.AugAssign) and isinstance(stmt.target, ast.Name):
        e = stmt.value
    elif isinstance(stmt, ast.expr):
        e = stmt
    else:
        return False
    return e is not None and scan(e) == "found"


def temp_pass(fn: ast.FunctionDef, qual: str, known_locals: Dict[str, set], log: List[str], mod: str) -> bool:
    """T: a NEW local (not bound in this function on the pinned tree) that holds a pure expression and is read only by
    the statement immediately following its definition (for `if` / `for`: only by the test / the iterable) is
    substituted back and its definition dropped."""
    known = known_locals.get(qual)
    if known is None and known_locals:
        known = set()        # a function that does not exist on the pinned tree: all its locals are new
    if known is None:
        return False
    changed_any = False
    for _ in range(20):
        changed = False
        binds: Dict[str, int] = {}
        for n in _walk_own(fn):
            if isinstance(n, ast.Name) and isinstance(n.ctx, (ast.Store, ast.Del)):
                binds[n.id] = binds.get(n.id, 0) + 1
        params = {a.arg for a in fn.args.posonlyargs + fn.args.args + fn.args.kwonlyargs}
        blocks = [fn.body]
        for n in _walk_own(fn):
            for f in ("body", "orelse", "finalbody"):
                b = getattr(n, f, None)
                if isinstance(b, list) and b and isinstance(b[0], ast.stmt) and not isinstance(n, (ast.FunctionDef, ast.AsyncFunctionDef, ast.ClassDef)):
                    blocks.append(b)
            if isinstance(n, ast.ExceptHandler):
                blocks.append(n.body)
        for blk in blocks:
            for i, st in enumerate(blk[:-1]):
                if not (isinstance(st, (ast.Assign, ast.AnnAssign)) and st.value is not None):
                    continue
                t = st.targets[0] if isinstance(st, ast.Assign) and len(st.targets) == 1 else (st.target if isinstance(st, ast.AnnAssign) else None)
                if not isinstance(t, ast.Name) or t.id in known or t.id in params or binds.get(t.id) != 1:
                    continue
                # the statement that reads it: the next one, or a later one when everything in between is "quiet"
                # (plain assignments of pure values to other names, which cannot change what the temporary's expression reads)
                j = i + 1
                value_names = {x.id for x in ast.walk(st.value) if isinstance(x, ast.Name)}
                while j < len(blk) - 0 and j < len(blk):
                    cand = blk[j]
                    reads_here = any(isinstance(x, ast.Name) and x.id == t.id and isinstance(x.ctx, ast.Load) for x in ast.walk(cand))
                    if reads_here:
                        break
                    quiet = isinstance(cand, (ast.Assign, ast.AnnAssign)) and cand.value is not None and _pure_temp_value(cand.value) \
                        and all(isinstance(tt, ast.Name) and tt.id not in value_names for tt in (cand.targets if isinstance(cand, ast.Assign) else [cand.target]))
                    if not quiet:
                        j = len(blk)
                        break
                    j += 1
                if j >= len(blk):
                    continue
                nxt = blk[j]
                getlike = isinstance(st.value, ast.Call) and isinstance(st.value.func, ast.Attribute) and st.value.func.attr == "get" and isinstance(st.value.func.value, ast.Name) \
                    and all(_pure_temp_value(a_) for a_ in st.value.args) and not st.value.keywords
                if getlike and any(isinstance(x, ast.Name) and x.id == st.value.func.value.id for c_ in blk[i + 1:j] for x in ast.walk(c_)):
                    getlike = False      # the table is touched in between
                if not _pure_temp_value(st.value) and not getlike:
                    # any value may be moved when the next statement does nothing but pass it on: `return t`, `x = t`
                    passes_on = (isinstance(nxt, ast.Return) and isinstance(nxt.value, ast.Name) and nxt.value.id == t.id) or \
                        (isinstance(nxt, (ast.Assign, ast.AnnAssign)) and isinstance(nxt.value, ast.Name) and nxt.value.id == t.id
                         and all(isinstance(x, ast.Name) for x in (nxt.targets if isinstance(nxt, ast.Assign) else [nxt.target])))
                    if not passes_on or j != i + 1:
                        # ... or when the read is the first thing the next statement evaluates
                        hdr = nxt.test if isinstance(nxt, ast.If) else (nxt.iter if isinstance(nxt, ast.For) else nxt)
                        n_reads = sum(1 for x in ast.walk(fn) if isinstance(x, ast.Name) and x.id == t.id and isinstance(x.ctx, ast.Load))
                        if j != i + 1 or n_reads != 1 or not _read_comes_first(hdr, t.id):
                            continue
                if isinstance(nxt, (ast.Assign, ast.AnnAssign, ast.AugAssign, ast.Expr, ast.Return)):
                    header = [nxt]
                elif isinstance(nxt, ast.If):
                    header = [nxt.test]
                elif isinstance(nxt, ast.For):
                    header = [nxt.iter]
                else:
                    continue
                if getlike and isinstance(nxt, (ast.Assign, ast.AugAssign)) is False:
                    continue
                all_uses = [n for n in ast.walk(fn) if isinstance(n, ast.Name) and n.id == t.id and isinstance(n.ctx, ast.Load)]
                hdr_uses = [n for h in header for n in ast.walk(h) if isinstance(n, ast.Name) and n.id == t.id and isinstance(n.ctx, ast.Load)]
                if not all_uses or len(all_uses) != len(hdr_uses):
                    continue
                # not inside a lambda / comprehension of the header (evaluated later / repeatedly)
                first_iter = {id(n) for h in header for x in ast.walk(h) if isinstance(x, (ast.ListComp, ast.SetComp, ast.DictComp))
                              for n in ast.walk(x.generators[0].iter)}        # evaluated at once, once
                deferred = [n for h in header for x in ast.walk(h) if isinstance(x, (ast.Lambda, ast.ListComp, ast.SetComp, ast.DictComp, ast.GeneratorExp))
                            for n in ast.walk(x) if isinstance(n, ast.Name) and n.id == t.id and id(n) not in first_iter]
                if deferred and any(isinstance(x, ast.Call) for x in ast.walk(st.value)):
                    continue
                sub = _Subst({t.id: st.value}, {})
                if isinstance(nxt, ast.If):
                    nxt.test = sub.visit(nxt.test)
                elif isinstance(nxt, ast.For):
                    nxt.iter = sub.visit(nxt.iter)
                else:
                    sub.visit(nxt)
                ast.fix_missing_locations(nxt)
                blk.pop(i)
                log.append(f"T {mod}:{st.lineno} new temporary `{t.id}` substituted into the following statement")
                changed = changed_any = True
                break
            if changed:
                break
        if not changed:
            break
    return changed_any


def _stable_value(e, ok_name) -> bool:
    """an expression over local NAMES only (no attribute reads, no calls but pure builtins, no fresh mutable
    containers): its value cannot change as long as the names it reads are not rebound.  Subscripts and builtin calls
    are allowed on names `ok_name` additionally certifies as never mutated in the function."""
    if isinstance(e, ast.Constant):
        return True
    if isinstance(e, ast.Name):
        return isinstance(e.ctx, ast.Load) and ok_name(e.id, False)
    if isinstance(e, ast.Tuple):
        return all(_stable_value(x, ok_name) for x in e.elts)
    if isinstance(e, ast.UnaryOp):
        return _stable_value(e.operand, ok_name)
    if isinstance(e, ast.BinOp):
        return _stable_value(e.left, ok_name) and _stable_value(e.right, ok_name)
    if isinstance(e, ast.BoolOp):
        return all(_stable_value(x, ok_name) for x in e.values)
    if isinstance(e, ast.Compare):
        return _stable_value(e.left, ok_name) and all(_stable_value(x, ok_name) for x in e.comparators)
    if isinstance(e, ast.IfExp):
        return all(_stable_value(x, ok_name) for x in (e.test, e.body, e.orelse))
    if isinstance(e, ast.Attribute):
        p = _path_of(e)
        return p is not None and not any(isinstance(x, ast.Subscript) for x in ast.walk(e)) and ok_name(p, True)
    if isinstance(e, ast.Subscript):
        if isinstance(e.value, ast.Name):
            return ok_name(e.value.id, True) and _stable_value(e.slice, ok_name)
        return isinstance(e.value, (ast.Subscript, ast.Attribute)) and _stable_value(e.value, ok_name) and _stable_value(e.slice, ok_name)
    if isinstance(e, ast.Call):
        return isinstance(e.func, ast.Name) and e.func.id in PURE_BUILTINS and not e.keywords \
            and all(isinstance(a, ast.Name) and ok_name(a.id, True) or (not isinstance(a, ast.Name) and _stable_value(a, ok_name)) for a in e.args)
    return False


def _blocks_of(fn):
    blocks = [fn.body]
    for n in _walk_own(fn):
        for f in ("body", "orelse", "finalbody"):
            b = getattr(n, f, None)
            if isinstance(b, list) and b and isinstance(b[0], ast.stmt) and not isinstance(n, (ast.FunctionDef, ast.AsyncFunctionDef, ast.ClassDef)):
                blocks.append(b)
        if isinstance(n, ast.ExceptHandler):
            blocks.append(n.body)
    return blocks


def _path_of(r) -> Optional[tuple]:
    """('self', '_x') for self._x, self._x[i], *self._x ...; None when the root is not a name"""
    parts = []
    while isinstance(r, (ast.Attribute, ast.Subscript, ast.Starred)):
        if isinstance(r, ast.Attribute):
            parts.append(r.attr)
        elif isinstance(r, ast.Subscript):
            parts.clear()          # an element: what is mutated / read is the container the path so far leads to
        r = r.value
    if not isinstance(r, ast.Name):
        return None
    return (r.id,) + tuple(reversed(parts))


def _root_name(r):
    while isinstance(r, (ast.Attribute, ast.Subscript, ast.Starred)):
        r = r.value
    return r.id if isinstance(r, ast.Name) else None


def stable_temp_pass(fn: ast.FunctionDef, qual: str, known_locals: Dict[str, set], log: List[str], mod: str) -> bool:
    """T2: a NEW local bound by plain assignments `t = V`, V an expression over names (see _stable_value).  Between such
    a definition and a read in the REST of the definition's block only statements of that rest are executed, so when
    none of them rebinds a name V reads (nor mutates, syntactically anywhere in the function, a name V subscripts or
    measures), the read sees V's value: every read is replaced by V and the definition dropped.  Several definitions
    of one name are fine when none lies in the rest of another and every read lies in the rest of one.
    P: the same for a new tuple unpacking `a, b = (x, y)` (a -> x, b -> y) and `a, b = e` (a -> e[0], b -> e[1])."""
    known = known_locals.get(qual)
    if known is None and known_locals:
        known = set()
    if known is None:
        return False
    changed_any = False
    params = {a.arg for a in fn.args.posonlyargs + fn.args.args + fn.args.kwonlyargs}
    if fn.args.vararg:
        params.add(fn.args.vararg.arg)
    if fn.args.kwarg:
        params.add(fn.args.kwarg.arg)
    for _ in range(60):
        changed = False
        binds: Dict[str, List[ast.Name]] = {}
        mutated: set = set()
        for n in _walk_own(fn):
            if isinstance(n, ast.Name) and isinstance(n.ctx, (ast.Store, ast.Del)):
                binds.setdefault(n.id, []).append(n)
        for n in ast.walk(fn):
            if isinstance(n, ast.Call) and isinstance(n.func, ast.Attribute):
                mutated.add(_root_name(n.func.value))
            elif isinstance(n, (ast.Subscript, ast.Attribute)) and isinstance(n.ctx, (ast.Store, ast.Del)):
                mutated.add(_root_name(n.value))
            elif isinstance(n, ast.AugAssign):
                mutated.add(_root_name(n.target))
            elif isinstance(n, (ast.Global, ast.Nonlocal)):
                mutated.update(n.names)
        blocks = _blocks_of(fn)
        # definition sites: name -> [(block, index, stmt)]
        sites: Dict[str, list] = {}
        for blk in blocks:
            for i, st in enumerate(blk):
                if isinstance(st, ast.Assign) and len(st.targets) == 1:
                    t = st.targets[0]
                    if isinstance(t, ast.Name):
                        sites.setdefault(t.id, []).append((blk, i, st))
                    elif isinstance(t, ast.Tuple) and t.elts and all(isinstance(x, ast.Name) for x in t.elts):
                        for x in t.elts:
                            sites.setdefault(x.id, []).append((blk, i, st))

        def name_ok(x) -> bool:
            """x is new, every binding of x is such a definition, none inside the rest of another, every read inside one"""
            if x in known or x in params or len(binds.get(x, [])) != len(sites.get(x, [])) or not sites.get(x):
                return False
            # a name that only ever stands for an immutable literal, or for another NAME (a pure alias: same object),
            # may be "mutated" through: there is nothing of its own to mutate
            plain = all(isinstance(s_.targets[0], ast.Name) and (_immutable_literal(s_.value) or isinstance(s_.value, ast.Name)) for _, _, s_ in sites[x])
            if x in mutated and not plain:
                return False
            rests = [[n for s in b[k + 1:] for n in ast.walk(s)] for b, k, _ in sites[x]]
            ids = [set(map(id, r)) for r in rests]
            for bn in binds[x]:
                if any(id(bn) in s for s in ids):
                    return False
            reads = [n for n in ast.walk(fn) if isinstance(n, ast.Name) and n.id == x and isinstance(n.ctx, ast.Load)]
            return bool(reads) and all(any(id(r) in s for s in ids) for r in reads)

        for blk in blocks:
            for i, st in enumerate(blk):
                if not (isinstance(st, ast.Assign) and len(st.targets) == 1):
                    continue
                t = st.targets[0]
                if isinstance(t, ast.Name):
                    tnames = [t.id]
                elif isinstance(t, ast.Tuple) and t.elts and all(isinstance(x, ast.Name) for x in t.elts):
                    tnames = [x.id for x in t.elts]
                else:
                    continue
                if len(set(tnames)) != len(tnames) or not all(name_ok(x) for x in tnames):
                    continue
                rest = blk[i + 1:]
                stored_in_rest = {n.id for s in rest for n in ast.walk(s) if isinstance(n, ast.Name) and isinstance(n.ctx, (ast.Store, ast.Del))}

                # what the rest of the block mutates (syntactically): receivers of method calls, roots of subscript /
                # attribute stores, augmented targets, and names handed whole to a call that is not a pure builtin
                mut_rest = set()          # paths: ('x',), ('self', '_a')
                for s in rest:
                    for n in ast.walk(s):
                        if isinstance(n, ast.Call):
                            if isinstance(n.func, ast.Attribute):
                                mut_rest.add(_path_of(n.func.value))
                            if not (isinstance(n.func, ast.Name) and n.func.id in PURE_BUILTINS):
                                for a in list(n.args) + [k.value for k in n.keywords]:
                                    if isinstance(a, (ast.Name, ast.Starred, ast.Attribute)):
                                        mut_rest.add(_path_of(a))
                        elif isinstance(n, ast.Attribute) and isinstance(n.ctx, (ast.Store, ast.Del)):
                            mut_rest.add(_path_of(n))
                        elif isinstance(n, ast.Subscript) and isinstance(n.ctx, (ast.Store, ast.Del)):
                            mut_rest.add(_path_of(n.value))
                        elif isinstance(n, ast.AugAssign):
                            mut_rest.add(_path_of(n.target) if isinstance(n.target, ast.Attribute) else _path_of(getattr(n.target, "value", n.target)))
                        elif isinstance(n, (ast.Global, ast.Nonlocal)):
                            mut_rest.update((x,) for x in n.names)
                mut_rest.discard(None)

                def _touched(path, _m=mut_rest):
                    return any(m[:len(path)] == path[:len(m)] for m in _m)

                def ok_name(nm, deep, _t=tnames, _s=stored_in_rest):
                    if isinstance(nm, tuple):        # an attribute path
                        return nm[0] not in _t and nm[0] not in _s and not _touched(nm)
                    return nm not in _t and nm not in _s and not (deep and _touched((nm,)))
                v = st.value
                if isinstance(t, ast.Name):
                    if not _stable_value(v, ok_name):
                        continue
                    mapping = {t.id: v}
                else:
                    if isinstance(v, ast.Tuple) and len(v.elts) == len(tnames) and _stable_value(v, ok_name):
                        mapping = dict(zip(tnames, v.elts))
                    elif isinstance(v, ast.Name) and ok_name(v.id, True):
                        mapping = {nm: ast.Subscript(value=ast.Name(id=v.id, ctx=ast.Load()), slice=ast.Constant(value=k), ctx=ast.Load()) for k, nm in enumerate(tnames)}
                    else:
                        continue
                later = [n for s in rest for n in ast.walk(s) if isinstance(n, ast.Name) and n.id in mapping and isinstance(n.ctx, ast.Load)]
                if not later:
                    continue
                # a read as the receiver of an attribute (t.append(..)) could rely on the identity of one object
                if not (isinstance(t, ast.Name) and (isinstance(v, ast.Name) or _immutable_literal(v))) and \
                        any(isinstance(n, ast.Attribute) and isinstance(n.value, ast.Name) and n.value.id in mapping for s in rest for n in ast.walk(s)):
                    continue
                # a read deferred past the block (lambda, nested def, generator) needs the names never to be rebound at all
                vnames = {x.id for x in ast.walk(v) if isinstance(x, ast.Name)}
                deferred = any(isinstance(x, (ast.Lambda, ast.FunctionDef, ast.AsyncFunctionDef, ast.GeneratorExp)) and
                               any(isinstance(n, ast.Name) and n.id in mapping for n in ast.walk(x)) for s in rest for x in ast.walk(s))
                if deferred and any(len(binds.get(nm, [])) + (1 if nm in params else 0) > 1 for nm in vnames):
                    continue
                sub = _Subst(mapping, {})
                for k, s in enumerate(rest):
                    blk[i + 1 + k] = sub.visit(s)
                    ast.fix_missing_locations(blk[i + 1 + k])
                blk.pop(i)
                log.append(f"T2 {mod}:{st.lineno} new local(s) {tnames} bound to a stable expression substituted into the reads")
                changed = changed_any = True
                break
            if changed:
                break
        if not changed:
            break
    return changed_any



def parallel_and_rename_pass(fn: ast.FunctionDef, qual: str, known_locals: Dict[str, set], log: List[str], mod: str) -> bool:
    """P2: `a, self.b = (x, y)` where a value is a NEW local and no target name occurs in a value is `a = x; self.b = y`.
    N: `t = s` where s is a NEW local bound exactly once and t is bound only here (and read only afterwards, in the
    rest of this block): s IS t under an earlier name - s is renamed to t everywhere and the statement dropped."""
    known = known_locals.get(qual)
    if known is None and known_locals:
        known = set()
    if known is None:
        return False
    params = {a.arg for a in fn.args.posonlyargs + fn.args.args + fn.args.kwonlyargs}
    changed_any = False
    for _ in range(30):
        changed = False
        binds: Dict[str, int] = {}
        for n in _walk_own(fn):
            if isinstance(n, ast.Name) and isinstance(n.ctx, (ast.Store, ast.Del)):
                binds[n.id] = binds.get(n.id, 0) + 1
        for blk in _blocks_of(fn):
            for i, st in enumerate(blk):
                if not (isinstance(st, ast.Assign) and len(st.targets) == 1):
                    continue
                t, v = st.targets[0], st.value
                if isinstance(t, ast.Tuple) and isinstance(v, ast.Tuple) and len(t.elts) == len(v.elts) and len(t.elts) > 1 \
                        and not any(isinstance(x, ast.Starred) for x in list(t.elts) + list(v.elts)):
                    vnames = {x.id for x in ast.walk(v) if isinstance(x, ast.Name)}
                    troots = {_root_name(x) for x in t.elts}
                    new_vals = [x for x in v.elts if isinstance(x, ast.Name) and x.id not in known and x.id not in params]
                    tpaths = {ast.unparse(x) for x in t.elts if not isinstance(x, ast.Name)}
                    new_tgts = all(isinstance(x, ast.Name) and x.id not in known and x.id not in params for x in t.elts)
                    if (new_vals or new_tgts) and None not in troots and not (troots & vnames) and not any(tp in ast.unparse(v) for tp in tpaths):
                        parts = [ast.copy_location(ast.Assign(targets=[te], value=ve, type_comment=None), st) for te, ve in zip(t.elts, v.elts)]
                        for p_ in parts:
                            ast.fix_missing_locations(p_)
                        blk[i:i + 1] = parts
                        log.append(f"P2 {mod}:{st.lineno} parallel assignment of a tuple literal split")
                        changed = changed_any = True
                        break
                if isinstance(t, ast.Name) and isinstance(v, ast.Name) and v.id != t.id and v.id not in known and v.id not in params \
                        and binds.get(v.id) == 1 and binds.get(t.id) == 1 and t.id not in params:
                    rest_ids = {id(n) for s_ in blk[i + 1:] for n in ast.walk(s_)}
                    t_reads = [n for n in ast.walk(fn) if isinstance(n, ast.Name) and n.id == t.id and n is not t]
                    if all(id(n) in rest_ids for n in t_reads) and not any(isinstance(n, (ast.Global, ast.Nonlocal)) and (t.id in n.names or v.id in n.names) for n in ast.walk(fn)):
                        old_name = v.id
                        for n in ast.walk(fn):
                            if isinstance(n, ast.Name) and n.id == old_name:
                                n.id = t.id
                        blk.pop(i)
                        log.append(f"N {mod}:{st.lineno} new local `{old_name}` is `{t.id}` under an earlier name: renamed")
                        changed = changed_any = True
                        break
            if changed:
                break
        if not changed:
            break
    return changed_any


def branch_values_pass(fn: ast.FunctionDef, qual: str, known_locals: Dict[str, set], log: List[str], mod: str) -> bool:
    """B: `if c: a, b = X1, Y1  else: a, b = X2, Y2` followed by statements that read the NEW locals a, b: the statements up
    to the last such read are copied into both branches (tail duplication - always behaviour-preserving), after which the
    branch-local values are ordinary temporaries of straight-line code.  Also `x.extend(repeat(v, n))` = `x.extend([v] * n)`."""
    import copy
    known = known_locals.get(qual)
    if known is None and known_locals:
        known = set()
    if known is None:
        return False
    params = {a.arg for a in fn.args.posonlyargs + fn.args.args + fn.args.kwonlyargs}
    changed_any = False
    for n in _walk_own(fn):
        if isinstance(n, ast.Call) and isinstance(n.func, ast.Attribute) and n.func.attr == "extend" and len(n.args) == 1 and not n.keywords:
            a = n.args[0]
            if isinstance(a, ast.Call) and ast.unparse(a.func) in ("repeat", "itertools.repeat") and len(a.args) == 2 and not a.keywords:
                n.args[0] = ast.copy_location(ast.BinOp(left=ast.List(elts=[a.args[0]], ctx=ast.Load()), op=ast.Mult(), right=a.args[1]), a)
                ast.fix_missing_locations(n)
                log.append(f"B {mod}:{n.lineno} extend(repeat(v, n)) written as extend([v] * n)")
                changed_any = True

    def assigned(stmts):
        out = set()
        for st in stmts:
            if isinstance(st, ast.Assign) and len(st.targets) == 1:
                t = st.targets[0]
                for e in (t.elts if isinstance(t, (ast.Tuple, ast.List)) else [t]):
                    if isinstance(e, ast.Name):
                        out.add(e.id)
        return out
    for _ in range(10):
        changed = False
        for blk in _blocks_of(fn):
            for i, st in enumerate(blk):
                if not (isinstance(st, ast.If) and st.orelse and i + 1 < len(blk)):
                    continue
                if any(isinstance(x, (ast.Return, ast.Break, ast.Continue, ast.Raise)) for b_ in (st.body, st.orelse) for s_ in b_ for x in ast.walk(s_)):
                    continue
                both = assigned(st.body[-1:]) & assigned(st.orelse[-1:])
                both = {nm for nm in both if nm not in known and nm not in params}
                if not both:
                    continue
                tail = blk[i + 1:]
                last = -1
                for k, t_ in enumerate(tail):
                    if any(isinstance(x, ast.Name) and x.id in both for x in ast.walk(t_)):
                        last = k
                if last < 0 or last > 5:
                    continue
                moved = tail[: last + 1]
                if any(isinstance(x, (ast.FunctionDef, ast.ClassDef, ast.Lambda)) for m_ in moved for x in ast.walk(m_)):
                    continue
                st.body.extend(copy.deepcopy(moved))
                st.orelse.extend(copy.deepcopy(moved))
                del blk[i + 1: i + 2 + last]
                log.append(f"B {mod}:{st.lineno} the statements reading the branch-local value(s) {sorted(both)} copied into both branches")
                changed = changed_any = True
                break
            if changed:
                break
        if not changed:
            break
    return changed_any


def self_rebind_pass(fn: ast.FunctionDef, log: List[str], mod: str) -> bool:
    """G: `x = e1` immediately followed, in the same block, by `x = e2` where e2 reads x exactly once is `x = e2[x := e1]`
    (`n = a / b; n = max(0, int(n))`): one definition for the rules that resolve a name to its value."""
    changed = False
    for blk in _blocks_of(fn):
        i = 0
        while i + 1 < len(blk):
            a, b = blk[i], blk[i + 1]
            ta = a.targets[0] if isinstance(a, ast.Assign) and len(a.targets) == 1 else (a.target if isinstance(a, ast.AnnAssign) and a.value is not None else None)
            tb = b.targets[0] if isinstance(b, ast.Assign) and len(b.targets) == 1 else (b.target if isinstance(b, ast.AnnAssign) and b.value is not None else None)
            if isinstance(ta, ast.Name) and isinstance(tb, ast.Name) and ta.id == tb.id:
                reads = [n for n in ast.walk(b.value) if isinstance(n, ast.Name) and n.id == ta.id and isinstance(n.ctx, ast.Load)]
                inner_scopes = any(isinstance(n, (ast.Lambda, ast.ListComp, ast.GeneratorExp, ast.SetComp, ast.DictComp)) for n in ast.walk(b.value))
                # only clamps / casts of the value just computed (`max(0, int(n))`); other re-bindings are spellings the pinned tree has too
                clampish = isinstance(b.value, ast.Call) and isinstance(b.value.func, ast.Name) and b.value.func.id in ("max", "min", "int", "float", "abs")
                if len(reads) == 1 and not inner_scopes and clampish:
                    class _S(ast.NodeTransformer):
                        def visit_Name(self, n, nm=ta.id, val=a.value):
                            return ast.copy_location(copy.deepcopy(val), n) if n.id == nm and isinstance(n.ctx, ast.Load) else n
                    b.value = _S().visit(b.value)
                    ast.fix_missing_locations(b)
                    log.append(f"G {mod}:{getattr(a, 'lineno', 0)} `{ta.id}` re-bound from itself: definitions merged")
                    del blk[i]
                    changed = True
                    continue
            i += 1
    return changed


def _effect_free(v) -> bool:
    if _pure_temp_value(v):
        return True
    # logging.getLogger(<pure>) only looks a logger up
    return isinstance(v, ast.Call) and ast.unparse(v.func) in ("logging.getLogger", "getLogger") and all(_pure_temp_value(a) for a in v.args) and not v.keywords


def dead_local_pass(fn: ast.FunctionDef, qual: str, known_locals: Dict[str, set], log: List[str], mod: str) -> bool:
    """X: a NEW local that is never read (its only occurrences are the targets of `x = V` / `x op= V` with V free of
    effects) - typically a counter or a logger whose only reader was a dropped assert / log call - is removed."""
    known = known_locals.get(qual)
    if known is None and known_locals:
        known = set()
    if known is None:
        return False
    params = {a.arg for a in fn.args.posonlyargs + fn.args.args + fn.args.kwonlyargs}
    loads, stores, scoped = set(), {}, set()
    for n in ast.walk(fn):
        if isinstance(n, ast.Name):
            if isinstance(n.ctx, ast.Load):
                loads.add(n.id)
            else:
                stores[n.id] = stores.get(n.id, 0) + 1
        elif isinstance(n, (ast.Global, ast.Nonlocal)):
            scoped.update(n.names)
    changed = False
    # a loop variable that is augmented and never read (`for k, v in d.items(): v *= s`) is not bookkeeping somebody forgot to read -
    # it is an update that goes nowhere; the statement stays so that the rules can speak about it (common_state S12)
    loop_targets = {x.id for n in ast.walk(fn) if isinstance(n, (ast.For, ast.comprehension)) for x in ast.walk(n.target) if isinstance(x, ast.Name)}
    for blk in _blocks_of(fn):
        keep = []
        for st in blk:
            t = None
            if isinstance(st, ast.Assign) and len(st.targets) == 1 and isinstance(st.targets[0], ast.Name):
                t = st.targets[0].id
            elif isinstance(st, ast.AugAssign) and isinstance(st.target, ast.Name) and st.target.id not in loop_targets:
                t = st.target.id
            if t is not None and t not in known and t not in params and t not in loads and t not in scoped and _effect_free(st.value):
                stores[t] -= 1
                log.append(f"X {mod}:{st.lineno} new local `{t}` is never read: assignment dropped")
                changed = True
                continue
            keep.append(st)
        if len(keep) != len(blk):
            blk[:] = keep or [ast.copy_location(ast.Pass(), blk[0])]
    return changed


# ----------------------------------------------------------------------------- helper table
class Helper:
    def __init__(self, name, qual, node, kind, cls, module):
        self.name, self.qual, self.node, self.kind, self.cls, self.module = name, qual, node, kind, cls, module
        # kind: 'function' | 'method' | 'static' | 'class'


def _kind_of(fn: ast.FunctionDef, in_class: bool) -> Optional[str]:
    decos = [ast.unparse(d) for d in fn.decorator_list]
    if not in_class:
        return "function" if not decos else None
    if decos == ["staticmethod"]:
        return "static"
    if decos == ["classmethod"]:
        return "class"
    if not decos:
        return "method"
    return None


def _body_wo_doc(fn):
    b = list(fn.body)
    if b and isinstance(b[0], ast.Expr) and isinstance(b[0].value, ast.Constant) and isinstance(b[0].value.value, str):
        b = b[1:]
    # logging statements carry no behaviour the rules speak about
    out = []
    for s in b:
        if isinstance(s, ast.Expr) and isinstance(s.value, ast.Call) and isinstance(s.value.func, ast.Attribute) \
                and s.value.func.attr in ("debug", "info", "warning") and "log" in ast.unparse(s.value.func.value).lower():
            continue
        out.append(s)
    if len(out) == 1 and _is_reraising_try(out[0]):
        return list(out[0].body)     # `try: BODY except ..: raise ..` computes what BODY computes (only the exception type differs)
    return out


def _is_reraising_try(s) -> bool:
    return isinstance(s, ast.Try) and not s.orelse and not s.finalbody and s.handlers and \
        all(h.body and isinstance(h.body[-1], ast.Raise) and not any(isinstance(x, (ast.Return, ast.Assign, ast.AugAssign)) for b_ in h.body for x in ast.walk(b_)) for h in s.handlers)


def _inlinable_shape(fn: ast.FunctionDef) -> bool:
    a = fn.args
    # a helper with an open-ended loop (while / break) is an algorithm of its own, not glue: it is left as a call
    # (search helpers of the shape `for ..: if ..: return CONST` / `return CONST` are still turned into any()/all())
    if any(isinstance(n, (ast.While, ast.Break)) for n in ast.walk(fn)):
        return False
    if a.vararg or a.kwarg or a.posonlyargs and False:
        return False
    n_stmts = 0
    top = [s_ for s_ in fn.body if not (isinstance(s_, ast.Expr) and isinstance(s_.value, ast.Constant))]
    wrapper = top[0] if len(top) == 1 and _is_reraising_try(top[0]) else None
    for n in ast.walk(fn):
        if n is fn or n is wrapper:
            continue
        if wrapper is not None and any(n is h or any(n is x for x in ast.walk(h)) for h in wrapper.handlers):
            continue
        if isinstance(n, (ast.FunctionDef, ast.AsyncFunctionDef, ast.ClassDef, ast.Lambda, ast.Yield, ast.YieldFrom, ast.Global, ast.Nonlocal, ast.Await, ast.Try, ast.With)):
            return False
        if isinstance(n, ast.stmt):
            n_stmts += 1
    return n_stmts <= MAX_HELPER_STMTS


# ----------------------------------------------------------------------------- helper body analysis
def _returns_in(stmts) -> List[ast.Return]:
    return [x for s in stmts for x in ast.walk(s) if isinstance(x, ast.Return)]


def _search_loop_expr(body) -> Optional[ast.expr]:
    """[for T in D: if C: return K1] ; return K2   with {K1, K2} = {True, False}  ->  all()/any() expression."""
    if len(body) != 2 or not isinstance(body[0], ast.For) or body[0].orelse or not isinstance(body[1], ast.Return):
        return None
    lp, tail = body
    if len(lp.body) != 1 or not isinstance(lp.body[0], ast.If) or lp.body[0].orelse:
        return None
    iff = lp.body[0]
    if len(iff.body) != 1 or not isinstance(iff.body[0], ast.Return):
        return None
    k1, k2 = iff.body[0].value, tail.value
    if not (isinstance(k1, ast.Constant) and isinstance(k2, ast.Constant) and {k1.value, k2.value} == {True, False} and isinstance(k1.value, bool)):
        return None
    gen = ast.comprehension(target=copy.deepcopy(lp.target), iter=copy.deepcopy(lp.iter), ifs=[], is_async=0)
    if k1.value is False:   # all(not C ...)
        elt = ast.UnaryOp(op=ast.Not(), operand=copy.deepcopy(iff.test))
        if isinstance(iff.test, ast.UnaryOp) and isinstance(iff.test.op, ast.Not):
            elt = copy.deepcopy(iff.test.operand)
        fn = "all"
    else:
        elt = copy.deepcopy(iff.test)
        fn = "any"
    e = ast.Call(func=ast.Name(id=fn, ctx=ast.Load()), args=[ast.GeneratorExp(elt=elt, generators=[gen])], keywords=[])
    return ast.copy_location(e, lp)


def _tail_returns_only(stmts) -> bool:
    """every `return` is in tail position of stmts (last statement, recursively through if/else)."""
    if not stmts:
        return True
    for s in stmts[:-1]:
        if _returns_in([s]):
            return False
    last = stmts[-1]
    if isinstance(last, ast.Return):
        return True
    if isinstance(last, ast.If):
        return _tail_returns_only(last.body) and _tail_returns_only(last.orelse)
    return not _returns_in([last])


def _always_leaves(stmts) -> bool:
    if not stmts:
        return False
    last = stmts[-1]
    if isinstance(last, (ast.Return, ast.Raise)):
        return True
    if isinstance(last, ast.If) and last.orelse:
        return _always_leaves(last.body) and _always_leaves(last.orelse)
    return False


def _structure_returns(stmts):
    """`if T: ...return` followed by REST  ->  if T: ...return else: REST   (function-level, not inside loops)."""
    out = []
    i = 0
    stmts = list(stmts)
    while i < len(stmts):
        s = stmts[i]
        if isinstance(s, ast.If) and i + 1 < len(stmts):
            if _always_leaves(s.body) and not _always_leaves(s.orelse):
                s2 = copy.copy(s)
                s2.body = _structure_returns(s.body)
                s2.orelse = _structure_returns(list(s.orelse) + stmts[i + 1:])
                out.append(s2)
                return out
            if s.orelse and _always_leaves(s.orelse) and not _always_leaves(s.body):
                s2 = copy.copy(s)
                s2.orelse = _structure_returns(s.orelse)
                s2.body = _structure_returns(list(s.body) + stmts[i + 1:])
                out.append(s2)
                return out
        if isinstance(s, ast.If):
            s2 = copy.copy(s)
            s2.body = _structure_returns(s.body)
            s2.orelse = _structure_returns(s.orelse)
            out.append(s2)
        else:
            out.append(s)
        i += 1
    return out


def _bound_names(stmts) -> set:
    out = set()
    for s in stmts:
        for n in ast.walk(s):
            if isinstance(n, ast.Name) and isinstance(n.ctx, (ast.Store, ast.Del)):
                out.add(n.id)
    return out


class _Subst(ast.NodeTransformer):
    def __init__(self, mapping: Dict[str, ast.expr], rename: Dict[str, str]):
        self.mapping, self.rename = mapping, rename

    def visit_Name(self, n):
        if n.id in self.rename:
            return ast.copy_location(ast.Name(id=self.rename[n.id], ctx=n.ctx), n)
        if n.id in self.mapping and isinstance(n.ctx, ast.Load):
            return copy.deepcopy(self.mapping[n.id])
        return n


def _simple_arg(e: ast.expr) -> bool:
    """cheap, side-effect free, and stable enough to be duplicated"""
    if isinstance(e, (ast.Name, ast.Constant)):
        return True
    if isinstance(e, ast.Attribute):
        return _simple_arg(e.value)
    if isinstance(e, ast.Subscript):
        return _simple_arg(e.value) and _simple_arg(e.slice)
    if isinstance(e, ast.UnaryOp):
        return _simple_arg(e.operand)
    if isinstance(e, ast.Tuple):
        return all(_simple_arg(x) for x in e.elts)
    if isinstance(e, ast.BinOp):
        return _simple_arg(e.left) and _simple_arg(e.right)
    if isinstance(e, ast.Slice):
        return all(x is None or _simple_arg(x) for x in (e.lower, e.upper, e.step))
    return False


def _evaluated_once(body, p) -> bool:
    """the parameter p is read exactly once in body, at a position evaluated once (not inside a loop body, a
    comprehension element, a lambda or a conditional branch)"""
    if _count_loads(body, p) != 1:
        return False
    ok = [False]

    def rec(node, once):
        if isinstance(node, ast.Name) and node.id == p and isinstance(node.ctx, ast.Load):
            ok[0] = once
            return
        if isinstance(node, (ast.For, ast.AsyncFor)):
            rec(node.iter, once)
            for x in node.body + node.orelse:
                rec(x, False)
            return
        if isinstance(node, ast.While):
            for x in [node.test] + node.body + node.orelse:
                rec(x, False)
            return
        if isinstance(node, ast.If):
            rec(node.test, once)
            for x in node.body + node.orelse:
                rec(x, False)
            return
        if isinstance(node, (ast.ListComp, ast.SetComp, ast.GeneratorExp, ast.DictComp)):
            rec(node.generators[0].iter, once)
            for g in node.generators:
                for c in g.ifs:
                    rec(c, False)
            for g in node.generators[1:]:
                rec(g.iter, False)
            for e in ([node.key, node.value] if isinstance(node, ast.DictComp) else [node.elt]):
                rec(e, False)
            return
        if isinstance(node, (ast.Lambda, ast.IfExp, ast.BoolOp)):
            for x in ast.iter_child_nodes(node):
                rec(x, False)
            return
        for x in ast.iter_child_nodes(node):
            rec(x, once)
    for s in body:
        rec(s, True)
    return ok[0]


def _count_loads(stmts_or_expr, name) -> int:
    nodes = stmts_or_expr if isinstance(stmts_or_expr, list) else [stmts_or_expr]
    return sum(1 for s in nodes for n in ast.walk(s) if isinstance(n, ast.Name) and n.id == name and isinstance(n.ctx, ast.Load))


class Normalizer:
    def __init__(self, trees: Dict[str, ast.Module], vocabulary: set):
        """trees: module name -> parsed tree (modified in place)."""
        self.trees = trees
        self.vocab = vocabulary
        self.helpers_fn: Dict[tuple, Helper] = {}       # (module, name) -> Helper
        self.helpers_m: Dict[tuple, Helper] = {}        # (class, name) -> Helper
        self.class_bases: Dict[str, List[str]] = {}
        self.imports: Dict[str, Dict[str, tuple]] = {}  # module -> local name -> (module, name)
        self.counter = 0
        self.log: List[str] = []
        self._collect()

    # ------------------------------------------------------------------ collection
    def _collect(self):
        if not self.vocab:
            return
        for mod, tree in self.trees.items():
            imp = self.imports.setdefault(mod, {})
            for st in ast.walk(tree):
                if isinstance(st, ast.ImportFrom) and st.module and not st.level:
                    for a in st.names:
                        imp[a.asname or a.name] = (st.module, a.name)
            for st in tree.body:
                if isinstance(st, ast.FunctionDef):
                    if st.name not in self.vocab and _kind_of(st, False) and _inlinable_shape(st):
                        self.helpers_fn[(mod, st.name)] = Helper(st.name, st.name, st, "function", None, mod)
                elif isinstance(st, ast.ClassDef):
                    self.class_bases[st.name] = [ast.unparse(b).split(".")[-1] for b in st.bases]
                    for c in st.body:
                        if isinstance(c, ast.FunctionDef):
                            q = f"{st.name}.{c.name}"
                            k = _kind_of(c, True)
                            if q not in self.vocab and k and _inlinable_shape(c) and not (c.name.startswith("__") and c.name.endswith("__")):
                                self.helpers_m[(st.name, c.name)] = Helper(c.name, q, c, k, st.name, mod)

    def _mro(self, cls: str) -> List[str]:
        out, todo = [], [cls]
        while todo:
            c = todo.pop(0)
            if c in out:
                continue
            out.append(c)
            todo += self.class_bases.get(c, [])
        return out

    def _overridden_in_vocab(self, cls: str, name: str) -> bool:
        return False

    def resolve(self, call: ast.Call, mod: str, cls: Optional[str], self_name: Optional[str]):
        r = self._resolve(call, mod, cls, self_name)
        if r is not None and r[0].module != mod:
            self.__dict__.setdefault("cross", set()).add((mod, r[0].module))
        return r

    def _carry_imports(self):
        """Code spliced in from another module keeps referring to that module's imports (`random`, `nx`, `chain`): an
        import the receiving module lacks is added to it, so that names still resolve to the library they mean."""
        for mod, src in sorted(self.__dict__.get("cross", ())):
            tree, stree = self.trees.get(mod), self.trees.get(src)
            if tree is None or stree is None:
                continue
            bound = set()
            for st in tree.body:
                if isinstance(st, (ast.Import, ast.ImportFrom)):
                    bound |= {(a.asname or a.name).split(".")[0] for a in st.names}
                elif isinstance(st, (ast.FunctionDef, ast.ClassDef)):
                    bound.add(st.name)
                elif isinstance(st, ast.Assign):
                    bound |= {t.id for t in st.targets if isinstance(t, ast.Name)}
            used = {n.id for n in ast.walk(tree) if isinstance(n, ast.Name) and isinstance(n.ctx, ast.Load)}
            add = []
            for st in stree.body:
                if isinstance(st, (ast.Import, ast.ImportFrom)) and not getattr(st, "level", 0):
                    keep = [a for a in st.names if (a.asname or a.name).split(".")[0] in used and (a.asname or a.name).split(".")[0] not in bound and a.name != "*"]
                    if keep:
                        c = copy.deepcopy(st)
                        c.names = keep
                        add.append(c)
                        bound |= {(a.asname or a.name).split(".")[0] for a in keep}
            if add:
                k = 1 if tree.body and isinstance(tree.body[0], ast.Expr) and isinstance(getattr(tree.body[0], "value", None), ast.Constant) else 0
                tree.body[k:k] = add
                ast.fix_missing_locations(tree)
                self.log.append(f"H {mod}: imports {[ast.unparse(a) for a in add]} carried over from {src} with the code spliced in")

    def _resolve(self, call: ast.Call, mod: str, cls: Optional[str], self_name: Optional[str]):
        """-> (Helper, receiver expr or None) for a call to an inlinable non-vocabulary helper."""
        f = call.func
        if any(isinstance(a, ast.Starred) for a in call.args) or any(k.arg is None for k in call.keywords):
            return None
        if isinstance(f, ast.Name):
            h = self.helpers_fn.get((mod, f.id))
            if h is None and f.id in self.imports.get(mod, {}):
                h = self.helpers_fn.get(self.imports[mod][f.id])
            if h is None and f.id not in self.imports.get(mod, {}) and f.id not in self.vocab:
                # a helper of ANOTHER module whose caller was itself spliced in here (the name is not imported in this
                # module): the one new module-level function of that name in the program
                cands = [hh for (m_, nm), hh in self.helpers_fn.items() if nm == f.id]
                if len(cands) == 1 and not any(isinstance(st, (ast.FunctionDef, ast.ClassDef)) and st.name == f.id for st in self.trees[mod].body):
                    h = cands[0]
            return (h, None) if h else None
        if isinstance(f, ast.Attribute) and isinstance(f.value, ast.Name):
            recv = f.value.id
            target_cls = None
            if cls and recv in (self_name, "cls", cls):
                target_cls = cls
            elif recv in self.class_bases:
                target_cls = recv
            if target_cls is None:
                # `obj.m(..)` on some object: when m is the name of exactly ONE new method in the whole program, of no
                # existing function / method, of no container method and obj is not an imported module, that is the callee
                cands = [h for (c, nm), h in self.helpers_m.items() if nm == f.attr]
                if len(cands) == 1 and cands[0].kind == "method" and recv not in self.imports.get(mod, {}) and recv not in ("self", "cls") \
                        and f.attr not in {m for ty in (dict, list, set, tuple, str, frozenset) for m in dir(ty)} and f.attr not in _library_method_names() \
                        and not any(q.split(".")[-1] == f.attr for q in self.vocab) and not any(nm == f.attr for (_, nm) in self.helpers_fn):
                    return cands[0], f.value
                return None
            for c in self._mro(target_cls):
                h = self.helpers_m.get((c, f.attr))
                if h is not None:
                    if h.kind == "method" and recv != self_name:
                        return None
                    # a subclass override anywhere would make the static target ambiguous: require none
                    if any((c2, f.attr) in self.helpers_m and c2 != c for c2 in self.class_bases if c in self._mro(c2)):
                        return None
                    return h, (f.value if h.kind in ("method", "class") else None)
                # a vocabulary method of that name in a nearer class shadows the helper
                if f"{c}.{f.attr}" in self.vocab:
                    return None
        return None

    # ------------------------------------------------------------------ parameter binding
    def _bind(self, h: Helper, call: ast.Call, recv):
        a = h.node.args
        params = [x.arg for x in a.posonlyargs + a.args]
        defaults = dict(zip(params[len(params) - len(a.defaults):], a.defaults))
        for k, d in zip(a.kwonlyargs, a.kw_defaults):
            params.append(k.arg)
            if d is not None:
                defaults[k.arg] = d
        bound: Dict[str, ast.expr] = {}
        pos = list(call.args)
        plist = list(params)
        if h.kind in ("method", "class"):
            if not plist:
                return None
            bound[plist[0]] = recv
            plist = plist[1:]
        if len(pos) > len(plist):
            return None
        for p, v in zip(plist, pos):
            bound[p] = v
        for k in call.keywords:
            if k.arg not in plist or k.arg in bound:
                return None
            bound[k.arg] = k.value
        for p in plist:
            if p not in bound:
                if p not in defaults:
                    return None
                bound[p] = defaults[p]
        return bound

    def _fresh(self):
        self.counter += 1
        return self.counter

    # ------------------------------------------------------------------ expression helpers
    def expr_form(self, h: Helper):
        """(temps [(name, expr)], result expr) when the helper is `t1 = e1; ...; return E` (or a search loop)."""
        body = _body_wo_doc(h.node)
        e = _search_loop_expr(body)
        if e is not None:
            return [], e
        temps = []
        for s in body[:-1]:
            if isinstance(s, (ast.Assign, ast.AnnAssign)) and (s.value is not None):
                t = s.targets[0] if isinstance(s, ast.Assign) and len(s.targets) == 1 else (s.target if isinstance(s, ast.AnnAssign) else None)
                if isinstance(t, ast.Name):
                    temps.append((t.id, s.value))
                    continue
            return None
        if not body or not isinstance(body[-1], ast.Return) or body[-1].value is None:
            return None
        names = [t for t, _ in temps]
        if len(set(names)) != len(names):
            return None
        return temps, body[-1].value

    def inline_expr(self, h: Helper, call: ast.Call, recv) -> Optional[ast.expr]:
        ef = self.expr_form(h)
        if ef is None:
            return None
        temps, result = ef
        bound = self._bind(h, call, recv)
        if bound is None:
            return None
        params_assigned = _bound_names(_body_wo_doc(h.node)) & set(bound)
        if params_assigned:
            return None
        # A temporary that is read more than once must denote the same value at every read: not a call with effects
        # (evaluated once by the helper) and not a fresh mutable object (`s = [..]; shuffle(s); return s` is ONE list).
        # And the order of effects must survive the substitution: at most one effectful piece.
        def _effectful(e_):
            return any(isinstance(x, ast.Call) and not (isinstance(x.func, ast.Name) and x.func.id in PURE_BUILTINS) for x in ast.walk(e_))

        def _fresh_mutable(e_):
            return isinstance(e_, (ast.List, ast.Dict, ast.Set, ast.ListComp, ast.DictComp, ast.SetComp)) or \
                (isinstance(e_, ast.Call) and isinstance(e_.func, ast.Name) and e_.func.id in ("list", "dict", "set", "sorted"))
        n_eff = 0
        for k_, (name, e) in enumerate(temps):
            later = [x for _, x in temps[k_ + 1:]] + [result]
            uses = sum(_count_loads(x, name) for x in later)
            if (_effectful(e) or _fresh_mutable(e)) and uses != 1:
                return None
            n_eff += 1 if _effectful(e) else 0
        names_ = {nm for nm, _ in temps}
        res_own = copy.deepcopy(result)
        if n_eff + (1 if any(isinstance(x, ast.Call) and not (isinstance(x.func, ast.Name) and x.func.id in PURE_BUILTINS) for x in ast.walk(res_own)) else 0) > 1:
            return None
        env: Dict[str, ast.expr] = {}
        for name, e in temps:
            e2 = _Subst(dict(env), {}).visit(copy.deepcopy(e))
            env[name] = e2
        res = _Subst(env, {}).visit(copy.deepcopy(result))
        # comprehension targets of the helper must not capture caller names appearing in the arguments
        comp_targets = {n.id for x in ast.walk(res) if isinstance(x, ast.comprehension) for n in ast.walk(x.target) if isinstance(n, ast.Name)}
        arg_names = {n.id for v in bound.values() for n in ast.walk(v) if isinstance(n, ast.Name)}
        rename = {}
        if comp_targets & arg_names:
            k = self._fresh()
            rename = {t: f"{t}__h{k}" for t in comp_targets & arg_names}
        for p, v in bound.items():
            if not _simple_arg(v) and _count_loads(res, p) > 1 and any(isinstance(x, ast.Call) for x in ast.walk(v)):
                return None
        out = _Subst(bound, rename).visit(res)
        return ast.copy_location(out, call)

    # ------------------------------------------------------------------ statement helpers
    def inline_stmt(self, h: Helper, call: ast.Call, recv, targets: Optional[List[ast.expr]], as_return: bool):
        """Splice the helper body in place of `call` used as a whole statement.  targets: assignment targets of the
        caller (None for an expression statement).  Returns a list of statements or None."""
        body = _structure_returns(_body_wo_doc(h.node))
        rets = _returns_in(body)
        if any(isinstance(x, (ast.For, ast.While)) and _returns_in(x.body + x.orelse) for s in body for x in ast.walk(s)):
            return None
        if not _tail_returns_only(body):
            return None
        bound = self._bind(h, call, recv)
        if bound is None:
            return None
        k = self._fresh()
        locals_ = _bound_names(body)
        rename = {n: f"{n}__h{k}" for n in locals_}
        pre: List[ast.stmt] = []
        mapping: Dict[str, ast.expr] = {}
        for p, v in bound.items():
            if p in locals_ or (not _simple_arg(v) and not _evaluated_once(body, p)):
                nm = rename.get(p) or f"{p}__h{k}"
                rename[p] = nm
                st = ast.Assign(targets=[ast.Name(id=nm, ctx=ast.Store())], value=copy.deepcopy(v), lineno=call.lineno, col_offset=call.col_offset)
                pre.append(ast.copy_location(st, call))
            else:
                mapping[p] = v
        # direct naming of returned locals onto the caller's targets:  a, b = helper(..) with `return x, y`
        if targets is not None and len(targets) == 1 and len(rets) == 1 and not as_return:
            tv, rv = targets[0], rets[0].value
            pairs = []
            if isinstance(tv, ast.Name) and isinstance(rv, ast.Name):
                pairs = [(tv, rv)]
            elif isinstance(tv, ast.Tuple) and isinstance(rv, ast.Tuple) and len(tv.elts) == len(rv.elts) and all(isinstance(x, ast.Name) for x in tv.elts + rv.elts):
                pairs = list(zip(tv.elts, rv.elts))
            arg_names = {n.id for v in bound.values() for n in ast.walk(v) if isinstance(n, ast.Name)}
            if pairs and all(r.id in locals_ and r.id not in bound for _, r in pairs) and len({r.id for _, r in pairs}) == len(pairs) \
                    and not ({t.id for t, _ in pairs} & arg_names) and not ({t.id for t, _ in pairs} & set(rename.values())):
                for t, r in pairs:
                    rename[r.id] = t.id
                new_body = [_Subst(mapping, rename).visit(copy.deepcopy(s)) for s in body]
                # drop the trailing `return <names>` (now `t = t`)
                new_body = self._replace_returns(new_body, None, False)
                return pre + new_body

        if (targets is not None or as_return) and not _always_leaves_or_assigned(body):
            return None   # some path falls off the end (returns None implicitly): not spliced
        new_body = [_Subst(mapping, rename).visit(copy.deepcopy(s)) for s in body]
        new_body = self._replace_returns(new_body, targets, as_return)
        return pre + new_body

    def _replace_returns(self, stmts, targets, as_return):
        out = []
        for i, s in enumerate(stmts):
            if isinstance(s, ast.Return):
                if as_return:
                    out.append(s)
                elif targets is None:
                    if s.value is not None and any(isinstance(x, ast.Call) for x in ast.walk(s.value)):
                        out.append(ast.copy_location(ast.Expr(value=s.value), s))
                    # a bare / pure return value is dropped
                else:
                    v = s.value if s.value is not None else ast.Constant(value=None)
                    out.append(ast.copy_location(ast.Assign(targets=copy.deepcopy(targets), value=v, lineno=s.lineno, col_offset=s.col_offset), s))
            elif isinstance(s, ast.If):
                s.body = self._replace_returns(s.body, targets, as_return) or [ast.copy_location(ast.Pass(), s)]
                s.orelse = self._replace_returns(s.orelse, targets, as_return)
                out.append(s)
            else:
                out.append(s)
        return out

    # ------------------------------------------------------------------ driver over one function
    def _rewrite_block(self, stmts, mod, cls, self_name):
        changed = False
        out = []
        for s in stmts:
            # recurse into compound statements first
            for field in ("body", "orelse", "finalbody"):
                blk = getattr(s, field, None)
                if isinstance(blk, list) and blk and isinstance(blk[0], ast.stmt) and not isinstance(s, (ast.FunctionDef, ast.AsyncFunctionDef, ast.ClassDef)):
                    nb, ch = self._rewrite_block(blk, mod, cls, self_name)
                    if ch:
                        setattr(s, field, nb)
                        changed = True
            if isinstance(s, ast.Try):
                for hnd in s.handlers:
                    nb, ch = self._rewrite_block(hnd.body, mod, cls, self_name)
                    if ch:
                        hnd.body = nb
                        changed = True
            # U: unroll literal loops
            if isinstance(s, ast.For) and isinstance(s.iter, (ast.Tuple, ast.List)) and 1 <= len(s.iter.elts) <= 4 and not s.orelse \
                    and isinstance(s.target, ast.Name) and all(_simple_arg(e) for e in s.iter.elts) \
                    and not any(isinstance(x, (ast.Break, ast.Continue)) for b in s.body for x in ast.walk(b)) \
                    and s.target.id not in _bound_names(s.body):
                for e in s.iter.elts:
                    for b in s.body:
                        out.append(_Subst({s.target.id: e}, {}).visit(copy.deepcopy(b)))
                self.log.append(f"U {mod}:{s.lineno} unrolled `for {s.target.id} in {ast.unparse(s.iter)}`")
                changed = True
                continue
            # E: local.extend([a, b]) with a literal display is the sequence of appends local.append(a); local.append(b)
            if isinstance(s, ast.Expr) and isinstance(s.value, ast.Call) and isinstance(s.value.func, ast.Attribute) and s.value.func.attr == "extend" \
                    and isinstance(s.value.func.value, ast.Name) and len(s.value.args) == 1 and not s.value.keywords \
                    and isinstance(s.value.args[0], (ast.List, ast.Tuple)) and 1 <= len(s.value.args[0].elts) <= 6 \
                    and not any(isinstance(e, ast.Starred) for e in s.value.args[0].elts):
                for e in s.value.args[0].elts:
                    st = ast.Expr(value=ast.Call(func=ast.Attribute(value=ast.Name(id=s.value.func.value.id, ctx=ast.Load()), attr="append", ctx=ast.Load()), args=[e], keywords=[]))
                    out.append(ast.fix_missing_locations(ast.copy_location(st, s)))
                self.log.append(f"E {mod}:{s.lineno} `{s.value.func.value.id}.extend([...])` written out as appends")
                changed = True
                continue
            # E3: the three columns of a LightWeightEdgeList are written with extend on the pinned tree;
            # `<x>.edge_list.append(v)` (no instance on that tree) is the same as `<x>.edge_list.extend([v])`
            if isinstance(s, ast.Expr) and isinstance(s.value, ast.Call) and isinstance(s.value.func, ast.Attribute) and s.value.func.attr == "append" \
                    and isinstance(s.value.func.value, ast.Attribute) and s.value.func.value.attr in ("edge_list", "topologies", "motif_id") \
                    and len(s.value.args) == 1 and not s.value.keywords and not isinstance(s.value.args[0], ast.Starred):
                s.value.func.attr = "extend"
                s.value.args = [ast.copy_location(ast.List(elts=[s.value.args[0]], ctx=ast.Load()), s.value.args[0])]
                ast.fix_missing_locations(s)
                self.log.append(f"E {mod}:{s.lineno} column append written as extend([..])")
                changed = True
            # C: a list comprehension that calls a statement helper is written out as the loop it abbreviates, so
            # that the helper can be spliced into the loop body in the next round
            exp = self._expand_comprehension(s, mod, cls, self_name)
            if exp is not None:
                out += exp
                changed = True
                continue
            # H (statement level)
            spliced = None
            call = None
            targets = None
            as_return = False
            if isinstance(s, ast.Expr) and isinstance(s.value, ast.Call):
                call = s.value
            elif isinstance(s, ast.Assign) and isinstance(s.value, ast.Call) and len(s.targets) == 1:
                call, targets = s.value, s.targets
            elif isinstance(s, ast.AnnAssign) and isinstance(s.value, ast.Call):
                call, targets = s.value, [s.target]
            elif isinstance(s, ast.Return) and isinstance(s.value, ast.Call):
                call, as_return = s.value, True
            if call is not None:
                r = self.resolve(call, mod, cls, self_name)
                if r is not None:
                    h, recv = r
                    e = self.inline_expr(h, call, recv)
                    if e is None:
                        spliced = self.inline_stmt(h, call, recv, targets, as_return)
                        if spliced is not None:
                            for x in spliced:
                                ast.fix_missing_locations(x)
                            self.log.append(f"H {mod}:{s.lineno} spliced `{h.qual}` ({len(spliced)} statements)")
            if spliced is not None:
                out += spliced
                changed = True
                continue
            # H (expression level) anywhere inside the statement's own expressions
            if self._rewrite_exprs(s, mod, cls, self_name):
                changed = True
            # H (hoisting): a statement helper called inside a larger expression that is evaluated exactly once
            # and unconditionally is spliced in front of the statement, its result bound to a fresh local
            hoisted = self._hoist(s, mod, cls, self_name)
            if hoisted:
                out += hoisted
                changed = True
            out.append(s)
        return out, changed

    def _expand_comprehension(self, s, mod, cls, self_name):
        if isinstance(s, ast.Return) and isinstance(s.value, ast.ListComp) and len(s.value.generators) == 1:
            # return [..helper(..) for ..]  ->  result = [..] ; return result   (then expanded like an assignment)
            k = self._fresh()
            nm = f"result__c{k}"
            asg = ast.copy_location(ast.Assign(targets=[ast.Name(id=nm, ctx=ast.Store())], value=s.value, lineno=s.lineno, col_offset=s.col_offset), s)
            exp = self._expand_comprehension(asg, mod, cls, self_name)
            if exp is None:
                return None
            ret = ast.copy_location(ast.Return(value=ast.Name(id=nm, ctx=ast.Load())), s)
            ast.fix_missing_locations(ret)
            return exp + [ret]
        if not (isinstance(s, (ast.Assign, ast.AnnAssign)) and isinstance(s.value, ast.ListComp) and len(s.value.generators) == 1):
            return None
        t = s.targets[0] if isinstance(s, ast.Assign) and len(s.targets) == 1 else (s.target if isinstance(s, ast.AnnAssign) else None)
        if not isinstance(t, ast.Name):
            return None
        comp = s.value
        g = comp.generators[0]
        if g.is_async:
            return None
        inner = [comp.elt] + list(g.ifs)
        hit = False
        for e in inner:
            for x in ast.walk(e):
                if isinstance(x, ast.Call):
                    r = self.resolve(x, mod, cls, self_name)
                    if r is not None and self.expr_form(r[0]) is None:
                        hit = True
                    # an element computed by a method of the object or by popping a container is an accumulation
                    # loop in disguise (the pinned tree writes these as loops)
                    if isinstance(x.func, ast.Attribute) and ((isinstance(x.func.value, ast.Name) and x.func.value.id == self_name and self_name) or x.func.attr == "pop"):
                        hit = True
        if not hit:
            return None
        # the target must not be read inside the comprehension (it would see the partially built list)
        if any(isinstance(x, ast.Name) and x.id == t.id for e in inner + [g.iter] for x in ast.walk(e)):
            return None
        init = ast.copy_location(ast.Assign(targets=[ast.Name(id=t.id, ctx=ast.Store())], value=ast.List(elts=[], ctx=ast.Load()), lineno=s.lineno, col_offset=s.col_offset), s)
        app = ast.Expr(value=ast.Call(func=ast.Attribute(value=ast.Name(id=t.id, ctx=ast.Load()), attr="append", ctx=ast.Load()), args=[comp.elt], keywords=[]))
        body = [ast.copy_location(app, comp)]
        for c in reversed(g.ifs):
            body = [ast.copy_location(ast.If(test=c, body=body, orelse=[]), comp)]
        loop = ast.copy_location(ast.For(target=g.target, iter=g.iter, body=body, orelse=[]), comp)
        for x in (init, loop):
            ast.fix_missing_locations(x)
        self.log.append(f"C {mod}:{s.lineno} list comprehension calling a statement helper written out as a loop")
        return [init, loop]

    def _hoist(self, s, mod, cls, self_name):
        roots = []
        if isinstance(s, (ast.Expr, ast.Return)) and s.value is not None:
            roots = [(s, "value")]
        elif isinstance(s, (ast.Assign, ast.AnnAssign, ast.AugAssign)) and s.value is not None:
            roots = [(s, "value")]
        elif isinstance(s, (ast.If, ast.While)) and isinstance(s, ast.If):
            roots = [(s, "test")]
        elif isinstance(s, ast.For):
            roots = [(s, "iter")]
        pre = []
        for owner, field in roots:
            found = []

            def rec(node, parent, pfield, pidx):
                # positions evaluated at most once / conditionally are not hoistable
                if isinstance(node, (ast.Lambda, ast.ListComp, ast.SetComp, ast.DictComp, ast.GeneratorExp, ast.IfExp, ast.BoolOp, ast.NamedExpr)):
                    return
                if isinstance(node, ast.Call):
                    r = self.resolve(node, mod, cls, self_name)
                    if r is not None and self.expr_form(r[0]) is None:
                        found.append((node, parent, pfield, pidx, r))
                        return
                for f, v in ast.iter_fields(node):
                    if isinstance(v, list):
                        for i, x in enumerate(v):
                            if isinstance(x, ast.AST):
                                rec(x, node, f, i)
                    elif isinstance(v, ast.AST):
                        rec(v, node, f, None)
            rec(getattr(owner, field), owner, field, None)
            if len(found) != 1:
                continue   # several helper calls in one expression: evaluation order would have to be preserved
            node, parent, pfield, pidx, (h, recv) = found[0]
            # calls evaluated BEFORE the helper in the same expression would be reordered by the hoist: none allowed
            # (calls that take the helper's result as an argument, or that come later, run after it either way)
            def _pos(n_):
                return (getattr(n_, "lineno", 0), getattr(n_, "col_offset", 0))
            others = [x for x in ast.walk(getattr(owner, field)) if isinstance(x, ast.Call) and x is not node and not any(x is y for y in ast.walk(node))
                      and not any(node is y for y in ast.walk(x)) and _pos(x) < _pos(node)
                      and not (isinstance(x.func, ast.Name) and x.func.id in PURE_BUILTINS)]
            if others:
                continue
            k = self._fresh()
            tmp = f"ret__h{k}"
            spl = self.inline_stmt(h, node, recv, [ast.Name(id=tmp, ctx=ast.Store())], False)
            if spl is None:
                continue
            for x in spl:
                ast.copy_location(x, x) if hasattr(x, "lineno") else ast.copy_location(x, s)
                ast.fix_missing_locations(x)
            new = ast.copy_location(ast.Name(id=tmp, ctx=ast.Load()), node)
            if pidx is None:
                setattr(parent, pfield, new)
            else:
                getattr(parent, pfield)[pidx] = new
            self.log.append(f"H {mod}:{s.lineno} hoisted `{h.qual}` ({len(spl)} statements)")
            pre += spl
        return pre

    def _rewrite_exprs(self, stmt, mod, cls, self_name) -> bool:
        norm = self
        changed = [False]

        class T(ast.NodeTransformer):
            def visit_FunctionDef(self, n):
                return n

            visit_AsyncFunctionDef = visit_ClassDef = visit_FunctionDef

            def generic_visit(self, node):
                # do not descend into nested statement blocks (handled by _rewrite_block)
                for field, old in ast.iter_fields(node):
                    if isinstance(old, list):
                        if old and isinstance(old[0], ast.stmt):
                            continue
                        new = []
                        for v in old:
                            if isinstance(v, ast.AST):
                                v = self.visit(v)
                                if v is None:
                                    continue
                            new.append(v)
                        old[:] = new
                    elif isinstance(old, ast.AST):
                        if isinstance(old, ast.stmt):
                            continue
                        setattr(node, field, self.visit(old))
                return node

            def visit_Call(self, n):
                self.generic_visit(n)
                r = norm.resolve(n, mod, cls, self_name)
                if r is None:
                    return n
                h, recv = r
                e = norm.inline_expr(h, n, recv)
                if e is None:
                    return n
                norm.log.append(f"H {mod}:{n.lineno} substituted `{h.qual}`")
                changed[0] = True
                return e

        T().generic_visit(stmt)
        if changed[0]:
            ast.fix_missing_locations(stmt)
        return changed[0]

    def run(self):
        if not self.vocab or not (self.helpers_fn or self.helpers_m or True):
            return
        for _ in range(MAX_ROUNDS):
            any_change = False
            for mod, tree in self.trees.items():
                for st in tree.body:
                    if isinstance(st, ast.FunctionDef):
                        nb, ch = self._rewrite_block(st.body, mod, None, None)
                        if ch:
                            st.body = nb
                            any_change = True
                        any_change |= self._nested(st, mod, None, None)
                    elif isinstance(st, ast.ClassDef):
                        for c in st.body:
                            if isinstance(c, ast.FunctionDef):
                                k = _kind_of(c, True)
                                params = [x.arg for x in c.args.posonlyargs + c.args.args]
                                self_name = params[0] if params and (k in ("method", None) and not any(ast.unparse(d) == "staticmethod" for d in c.decorator_list)) else None
                                nb, ch = self._rewrite_block(c.body, mod, st.name, self_name)
                                if ch:
                                    c.body = nb
                                    any_change = True
                                any_change |= self._nested(c, mod, st.name, self_name)
            if not any_change:
                break
        self._drop_absorbed()
        self._carry_imports()
        known_locals = load_locals()

        def each(fn, qual, cls_node):
            fold_function(fn)          # what inlining a helper with constant arguments leaves behind
            self_rebind_pass(fn, self.log, mod)
            branch_values_pass(fn, qual, known_locals, self.log, mod)
            parallel_and_rename_pass(fn, qual, known_locals, self.log, mod)
            alias_pass(fn, cls_node, self.log, mod)
            temp_pass(fn, qual, known_locals, self.log, mod)
            for _ in range(4):
                dead_local_pass(fn, qual, known_locals, self.log, mod)
                if not stable_temp_pass(fn, qual, known_locals, self.log, mod):
                    break
                temp_pass(fn, qual, known_locals, self.log, mod)
                if not fold_function(fn):
                    break
            for n in _walk_own(fn):
                if isinstance(n, ast.FunctionDef):
                    each(n, f"{qual}.{n.name}", None)
        for mod, tree in self.trees.items():
            for st in tree.body:
                if isinstance(st, ast.FunctionDef):
                    each(st, st.name, None)
                elif isinstance(st, ast.ClassDef):
                    for c in st.body:
                        if isinstance(c, ast.FunctionDef):
                            key = c.name + ".setter" if any(ast.unparse(d).endswith(".setter") for d in c.decorator_list) else c.name
                            each(c, f"{st.name}.{key}", st)

    def _drop_absorbed(self):
        """A helper whose every call site was inlined no longer takes part in the program: its definition is removed,
        so that whole-program rules (who may write X, who draws random numbers) do not see the same code twice."""
        if not (self.helpers_fn or self.helpers_m):
            return
        remaining = set()
        for mod, tree in self.trees.items():
            for st in tree.body:
                scopes = []
                if isinstance(st, ast.FunctionDef):
                    scopes.append((st, None, None))
                elif isinstance(st, ast.ClassDef):
                    for c in st.body:
                        if isinstance(c, ast.FunctionDef):
                            params = [x.arg for x in c.args.posonlyargs + c.args.args]
                            sn = params[0] if params and not any(ast.unparse(d) == "staticmethod" for d in c.decorator_list) else None
                            scopes.append((c, st.name, sn))
                else:
                    scopes.append((st, None, None))
                for node, cls, sn in scopes:
                    for x in ast.walk(node):
                        if isinstance(x, ast.Call):
                            r = self.resolve(x, mod, cls, sn)
                            if r is not None:
                                remaining.add(r[0].qual)
                        # a helper passed around as a value (callback) is still in use
                        if isinstance(x, ast.Attribute) and isinstance(x.ctx, ast.Load):
                            for h in self.helpers_m.values():
                                if x.attr == h.name:
                                    remaining.add(h.qual) if not any(isinstance(p_, ast.Call) and p_.func is x for p_ in ast.walk(node)) else None
                        if isinstance(x, ast.Name) and isinstance(x.ctx, ast.Load):
                            for h in self.helpers_fn.values():
                                if x.id == h.name and not any(isinstance(p_, ast.Call) and p_.func is x for p_ in ast.walk(node)):
                                    remaining.add(h.qual)
        for (mod, name), h in list(self.helpers_fn.items()):
            if h.qual not in remaining and any("`" + h.qual + "`" in l for l in self.log):
                tree = self.trees[mod]
                tree.body = [s_ for s_ in tree.body if s_ is not h.node]
                self.log.append(f"H {mod}: helper `{h.qual}` absorbed by its callers (definition dropped)")
        for (cls, name), h in list(self.helpers_m.items()):
            if h.qual not in remaining and any("`" + h.qual + "`" in l for l in self.log):
                for tree in self.trees.values():
                    for st in tree.body:
                        if isinstance(st, ast.ClassDef) and st.name == cls:
                            st.body = [s_ for s_ in st.body if s_ is not h.node] or [ast.Pass()]
                self.log.append(f"H {h.module}: helper `{h.qual}` absorbed by its callers (definition dropped)")

    def _nested(self, fn, mod, cls, self_name) -> bool:
        ch_any = False
        for n in ast.walk(fn):
            if n is not fn and isinstance(n, ast.FunctionDef):
                nb, ch = self._rewrite_block(n.body, mod, cls, self_name)
                if ch:
                    n.body = nb
                    ch_any = True
        return ch_any


def _attr_chain(e) -> Optional[List[str]]:
    parts = []
    while isinstance(e, ast.Attribute):
        parts.append(e.attr)
        e = e.value
    if isinstance(e, ast.Name) and parts:
        return [e.id] + parts[::-1]
    return None


def _split_chained(fn: ast.FunctionDef, log: List[str], mod: str) -> None:
    """`self.x = d = V` (one attribute path, one plain name) is `self.x = V` followed by `d = self.x`."""
    binds: Dict[str, int] = {}
    for n in _walk_own(fn):
        if isinstance(n, ast.Name) and isinstance(n.ctx, (ast.Store, ast.Del)):
            binds[n.id] = binds.get(n.id, 0) + 1
    for n in _walk_own(fn):
        for f in ("body", "orelse", "finalbody"):
            blk = getattr(n, f, None)
            if not (isinstance(blk, list) and blk and isinstance(blk[0], ast.stmt)) or isinstance(n, (ast.FunctionDef, ast.AsyncFunctionDef, ast.ClassDef)):
                continue
            _split_block(blk, log, mod, binds)
    _split_block(fn.body, log, mod, binds)


def _split_block(blk, log, mod, binds=None):
    i = 0
    while i < len(blk):
        s = blk[i]
        # `d = V` ; `self.x = d`   is   `self.x = V` ; `d = self.x`   (d bound only here)
        if binds is not None and i + 1 < len(blk) and isinstance(s, (ast.Assign, ast.AnnAssign)) and s.value is not None:
            t0 = s.targets[0] if isinstance(s, ast.Assign) and len(s.targets) == 1 else (s.target if isinstance(s, ast.AnnAssign) else None)
            nx_ = blk[i + 1]
            if isinstance(t0, ast.Name) and binds.get(t0.id) == 1 and isinstance(nx_, ast.Assign) and len(nx_.targets) == 1 and _attr_chain(nx_.targets[0]) is not None \
                    and isinstance(nx_.value, ast.Name) and nx_.value.id == t0.id and not isinstance(s.value, (ast.Name, ast.Constant)):
                chain_t = nx_.targets[0]
                first = ast.copy_location(ast.Assign(targets=[chain_t], value=s.value, lineno=s.lineno, col_offset=s.col_offset), s)
                load = copy.deepcopy(chain_t)
                for x in ast.walk(load):
                    if isinstance(x, (ast.Attribute, ast.Name)):
                        x.ctx = ast.Load()
                second = ast.copy_location(ast.Assign(targets=[ast.Name(id=t0.id, ctx=ast.Store())], value=load, lineno=nx_.lineno, col_offset=nx_.col_offset), nx_)
                ast.fix_missing_locations(first)
                ast.fix_missing_locations(second)
                chain_t._pre_alias = True
                blk[i:i + 2] = [first, second]
                log.append(f"A {mod}:{s.lineno} `{t0.id} = ..; {ast.unparse(chain_t)} = {t0.id}` turned round")
                i += 2
                continue
        if isinstance(s, ast.Assign) and len(s.targets) == 2:
            names = [t for t in s.targets if isinstance(t, ast.Name)]
            chains = [t for t in s.targets if _attr_chain(t) is not None]
            if len(names) == 1 and len(chains) == 1:
                first = ast.copy_location(ast.Assign(targets=[chains[0]], value=s.value, lineno=s.lineno, col_offset=s.col_offset), s)
                load = copy.deepcopy(chains[0])
                for x in ast.walk(load):
                    if isinstance(x, (ast.Attribute, ast.Name)):
                        x.ctx = ast.Load()
                second = ast.copy_location(ast.Assign(targets=[names[0]], value=load, lineno=s.lineno, col_offset=s.col_offset), s)
                ast.fix_missing_locations(first)
                ast.fix_missing_locations(second)
                chains[0]._pre_alias = True      # this store precedes the alias taken by `second`
                blk[i:i + 1] = [first, second]
                log.append(f"A {mod}:{s.lineno} chained assignment split")
                i += 1
        i += 1


def alias_pass(fn: ast.FunctionDef, cls: Optional[ast.ClassDef], log: List[str], mod: str) -> bool:
    _split_chained(fn, log, mod)
    params = {a.arg for a in fn.args.posonlyargs + fn.args.args + fn.args.kwonlyargs}
    binds: Dict[str, int] = {}
    own = [n for n in _walk_own(fn)]
    for n in own:
        if isinstance(n, ast.Name) and isinstance(n.ctx, (ast.Store, ast.Del)):
            binds[n.id] = binds.get(n.id, 0) + 1
        elif isinstance(n, (ast.FunctionDef, ast.ClassDef)) and n is not fn:
            binds[n.name] = binds.get(n.name, 0) + 2
        elif isinstance(n, (ast.Global, ast.Nonlocal)):
            for x in n.names:
                binds[x] = binds.get(x, 0) + 2
    attr_stores = set()
    attr_store_pos: Dict[tuple, list] = {}
    for n in own:
        if isinstance(n, ast.Attribute) and isinstance(n.ctx, (ast.Store, ast.Del)):
            c = _attr_chain(n)
            if c:
                attr_stores.add(tuple(c))
                attr_store_pos.setdefault(tuple(c), []).append(n)
    called_self = {n.func.attr for n in own if isinstance(n, ast.Call) and isinstance(n.func, ast.Attribute) and isinstance(n.func.value, ast.Name) and n.func.value.id == "self"}
    callee_stores = set()
    if cls is not None:
        for c in cls.body:
            if isinstance(c, ast.FunctionDef) and c.name in called_self:
                for n in ast.walk(c):
                    if isinstance(n, ast.Attribute) and isinstance(n.ctx, (ast.Store, ast.Del)) and isinstance(n.value, ast.Name) and n.value.id == "self":
                        callee_stores.add(n.attr)
    changed = False
    for st in list(fn.body):
        if not (isinstance(st, (ast.Assign, ast.AnnAssign)) and st.value is not None):
            continue
        t = st.targets[0] if isinstance(st, ast.Assign) and len(st.targets) == 1 else (st.target if isinstance(st, ast.AnnAssign) else None)
        if not isinstance(t, ast.Name) or binds.get(t.id) != 1 or t.id in params:
            continue
        chain = _attr_chain(st.value)
        if chain is None:
            continue
        root = chain[0]
        if binds.get(root, 0) > (0 if root in params else 1):
            continue
        # the path may be (re)bound BEFORE the alias is taken (`self.x = {}` then `d = self.x`), never after it, and never
        # inside a loop (it would run again)
        def _blocks_alias(k):
            for n_ in attr_store_pos.get(tuple(chain[:k]), []):
                if getattr(n_, "_pre_alias", False) and not _in_loop(fn, n_):
                    continue
                if (n_.lineno, n_.col_offset) >= (st.lineno, st.col_offset) or _in_loop(fn, n_):
                    return True
            return False
        if any(_blocks_alias(k) for k in range(2, len(chain) + 1)):
            continue
        if root == "self" and chain[1] in callee_stores:
            continue
        x = t.id
        uses = [n for n in own if isinstance(n, ast.Name) and n.id == x and isinstance(n.ctx, ast.Load)]
        if not uses or any((n.lineno, n.col_offset) <= (st.lineno, st.col_offset) for n in uses):
            continue
        _Subst({x: st.value}, {}).visit(fn)   # the binding itself is a Store and is left alone
        fn.body.remove(st)                    # ... and is dead now (its value is a pure attribute path)
        log.append(f"A {mod}:{st.lineno} alias `{x} = {ast.unparse(st.value)}` propagated to {len(uses)} uses")
        changed = True
        own = [n for n in _walk_own(fn)]
    if changed:
        ast.fix_missing_locations(fn)
    return changed


def _in_loop(fn, node) -> bool:
    for n in ast.walk(fn):
        if isinstance(n, (ast.For, ast.While)) and any(node is x for b in n.body + n.orelse for x in ast.walk(b)):
            return True
    return False


def _walk_own(fn):
    """nodes of fn excluding nested function / class bodies (their names are separate scopes)"""
    stack = list(ast.iter_child_nodes(fn))
    while stack:
        n = stack.pop()
        yield n
        if isinstance(n, (ast.FunctionDef, ast.AsyncFunctionDef, ast.ClassDef, ast.Lambda)):
            continue
        stack.extend(ast.iter_child_nodes(n))


def _always_leaves_or_assigned(stmts) -> bool:
    """after _replace_returns: does every path through stmts end in an (assignment that replaced a) return?"""
    if not stmts:
        return False
    last = stmts[-1]
    if isinstance(last, (ast.Return, ast.Raise)):
        return True
    if isinstance(last, ast.If):
        return bool(last.orelse) and _always_leaves_or_assigned(last.body) and _always_leaves_or_assigned(last.orelse)
    return False


# ----------------------------------------------------------------------------- F: constant folding
class _Fold(ast.NodeTransformer):
    """Folds what rule K / O substitutions leave behind: comparisons of two constants (`None is None`), `not <const>`,
    and / or with constant operands, if-expressions with a constant test."""
    stable_names: set = set()        # module-level names bound exactly once (sentinels): `X is X` folds

    def __init__(self):
        self.n = 0

    def visit_Compare(self, n):
        self.generic_visit(n)
        if len(n.ops) == 1 and isinstance(n.left, ast.Name) and isinstance(n.comparators[0], ast.Name) and n.left.id == n.comparators[0].id \
                and n.left.id in self.stable_names and isinstance(n.ops[0], (ast.Is, ast.IsNot)):
            self.n += 1
            return ast.copy_location(ast.Constant(value=isinstance(n.ops[0], ast.Is)), n)
        if len(n.ops) == 1 and isinstance(n.left, ast.Constant) and isinstance(n.comparators[0], ast.Constant):
            a, b, op = n.left.value, n.comparators[0].value, n.ops[0]
            try:
                if isinstance(op, ast.Is):
                    v = a is b if (a is None or b is None or isinstance(a, bool) or isinstance(b, bool)) else None
                elif isinstance(op, ast.IsNot):
                    v = a is not b if (a is None or b is None or isinstance(a, bool) or isinstance(b, bool)) else None
                elif isinstance(op, ast.Eq):
                    v = a == b
                elif isinstance(op, ast.NotEq):
                    v = a != b
                else:
                    v = None
            except Exception:
                v = None
            if v is not None:
                self.n += 1
                return ast.copy_location(ast.Constant(value=bool(v)), n)
        return n

    def visit_UnaryOp(self, n):
        self.generic_visit(n)
        if isinstance(n.op, ast.UAdd) and isinstance(n.operand, ast.Constant) and isinstance(n.operand.value, (int, float)):
            self.n += 1
            return n.operand
        if isinstance(n.op, ast.Not) and isinstance(n.operand, ast.Constant):
            self.n += 1
            return ast.copy_location(ast.Constant(value=not n.operand.value), n)
        return n

    def visit_BoolOp(self, n):
        self.generic_visit(n)
        is_and = isinstance(n.op, ast.And)
        out = []
        for k, v in enumerate(n.values):
            last = k == len(n.values) - 1
            if isinstance(v, ast.Constant):
                truthy = bool(v.value)
                if truthy == is_and and not last:
                    self.n += 1
                    continue            # `True and x` = x ; `False or x` = x
                if truthy != is_and:
                    out.append(v)       # `.. and False` / `.. or True`: evaluation stops here with this value
                    if not last:
                        self.n += 1
                    break
            out.append(v)
        if len(out) == 1:
            return out[0]
        n.values = out
        return n

    def visit_IfExp(self, n):
        self.generic_visit(n)
        if isinstance(n.test, ast.Constant):
            self.n += 1
            return n.body if n.test.value else n.orelse
        return n


def _fold_block(stmts: list, counter: List[int]) -> list:
    out = []
    for st in stmts:
        for f in ("body", "orelse", "finalbody"):
            b = getattr(st, f, None)
            if isinstance(b, list) and b and isinstance(b[0], ast.stmt) and not isinstance(st, (ast.FunctionDef, ast.AsyncFunctionDef, ast.ClassDef)):
                nb = _fold_block(b, counter)
                setattr(st, f, nb if (nb or f != "body") else [ast.copy_location(ast.Pass(), st)])
        if isinstance(st, ast.Try):
            for h in st.handlers:
                h.body = _fold_block(h.body, counter) or [ast.copy_location(ast.Pass(), h)]
        if isinstance(st, ast.If) and isinstance(st.test, ast.Constant):
            counter[0] += 1
            taken = st.body if st.test.value else st.orelse
            out.extend(taken)
            if taken and isinstance(taken[-1], (ast.Return, ast.Raise, ast.Continue, ast.Break)):
                break          # the branch that is always taken leaves the block: what follows is unreachable
            continue
        if isinstance(st, ast.While) and isinstance(st.test, ast.Constant) and not st.test.value:
            counter[0] += 1
            out.extend(st.orelse)
            continue
        out.append(st)
    return [x for x in out if not isinstance(x, ast.Pass)] if len(out) > 1 else out


def fold_function(fn) -> int:
    """constant-fold the expressions and the statement structure of one function; returns the number of folds"""
    f = _Fold()
    for k, st in enumerate(fn.body):
        fn.body[k] = f.visit(st)
    c = [0]
    fn.body = _fold_block(fn.body, c) or [ast.copy_location(ast.Pass(), fn)]
    if f.n or c[0]:
        ast.fix_missing_locations(fn)
    return f.n + c[0]


# ----------------------------------------------------------------------------- O: new optional parameters
def _vocab_functions(trees):
    """(module, FunctionDef, qualname as in known_functions.json, class name) for module-level functions and methods"""
    for mod, tree in trees.items():
        for st in tree.body:
            if isinstance(st, ast.FunctionDef):
                yield mod, st, st.name, None
            elif isinstance(st, ast.ClassDef):
                for c in st.body:
                    if isinstance(c, ast.FunctionDef):
                        key = c.name + ".setter" if any(ast.unparse(d).endswith(".setter") for d in c.decorator_list) else c.name
                        yield mod, c, f"{st.name}.{key}", st.name


def _specialise_param(fn: ast.FunctionDef, name: str, default: ast.expr) -> bool:
    """Rewrite fn's body for `name` == default.  The parameter may be rebound by the usual defaulting idioms at the top
    level of the body (`if p is None: p = E`, `p = p or E`, `p = E if p is None else p`): from there on it is a local."""
    if any(isinstance(n, (ast.FunctionDef, ast.AsyncFunctionDef, ast.Lambda)) and n is not fn and
           any(a.arg == name for a in n.args.posonlyargs + n.args.args + n.args.kwonlyargs) for n in ast.walk(fn)):
        return False
    if any(isinstance(n, (ast.Global, ast.Nonlocal)) and name in n.names for n in ast.walk(fn)):
        return False
    body = copy.deepcopy(fn.body)
    sub = _Subst({name: default}, {})
    out = []
    done = False
    for st in body:
        if done:
            out.append(st)
            continue
        stores = [n for n in ast.walk(st) if isinstance(n, ast.Name) and n.id == name and isinstance(n.ctx, (ast.Store, ast.Del))]
        if not stores:
            out.append(sub.visit(st))
            continue
        if isinstance(st, ast.Assign) and len(st.targets) == 1 and isinstance(st.targets[0], ast.Name) and st.targets[0].id == name:
            st.value = _Fold().visit(sub.visit(st.value))
            out.append(st)
            done = True
            continue
        if isinstance(st, ast.If) and not st.orelse and len(st.body) == 1 and isinstance(st.body[0], ast.Assign) and len(st.body[0].targets) == 1 \
                and isinstance(st.body[0].targets[0], ast.Name) and st.body[0].targets[0].id == name:
            test = _Fold().visit(sub.visit(copy.deepcopy(st.test)))
            if isinstance(test, ast.Constant):
                if test.value:
                    asg = st.body[0]
                    asg.value = _Fold().visit(sub.visit(asg.value))
                    out.append(asg)
                    done = True
                else:
                    # never rebound on this path: the rest still sees the default
                    pass
                continue
        return False
    if not done and any(isinstance(n, ast.Name) and n.id == name for s_ in out for n in ast.walk(s_)):
        return False
    fn.body = out or [ast.copy_location(ast.Pass(), fn)]
    ast.fix_missing_locations(fn)
    return True


def _calls_outside_existing_behaviour(trees, sigs) -> set:
    """ids of the Call nodes written in NEW top-level functions / methods that no existing function reaches.
    The calls that existing behaviour can go through are those written in functions that exist on the pinned tree, in
    the new functions these (transitively, by name) call, and at module / class level.  A call made only by a NEW
    public function (a sibling that offers the non-default path) is new functionality."""
    defs_by_name: Dict[str, list] = {}
    vocab_nodes = []
    for _mod, fdef, _qual, _cls in _vocab_functions(trees):
        defs_by_name.setdefault(fdef.name, []).append(fdef)
        if _qual in sigs:
            vocab_nodes.append(fdef)
    reach = {id(f_): f_ for f_ in vocab_nodes}
    frontier = list(vocab_nodes)
    while frontier:
        f_ = frontier.pop()
        for c_ in ast.walk(f_):
            if isinstance(c_, ast.Call):
                nm_ = c_.func.attr if isinstance(c_.func, ast.Attribute) else (c_.func.id if isinstance(c_.func, ast.Name) else None)
                for g_ in defs_by_name.get(nm_, []):
                    if id(g_) not in reach:
                        reach[id(g_)] = g_
                        frontier.append(g_)
    top_defs = {id(fdef): fdef for _mod, fdef, _qual, _cls in _vocab_functions(trees)}
    excluded = set()
    for fid, fdef in top_defs.items():
        if fid not in reach:
            excluded |= {id(c_) for c_ in ast.walk(fdef) if isinstance(c_, ast.Call)}
    return excluded


def optional_params_pass(trees: Dict[str, ast.Module], vocab: dict, log: List[str], is_const=None) -> None:
    """O: a parameter that an existing function does not have on the pinned tree and that carries an immutable default
    is an optional extension.  The properties speak about the calls that existed, which all run with the default: the
    function is specialised to it (reads replaced by the default, the tests folded, the parameter removed), and keyword
    arguments that hand the same default on to another specialised function are dropped."""
    sigs = vocab.get("params")
    if not sigs:
        return
    excluded = _calls_outside_existing_behaviour(trees, sigs)
    all_calls = [n for tree in trees.values() for n in ast.walk(tree) if isinstance(n, ast.Call) and id(n) not in excluded]
    # call -> {parameter of the enclosing function: its default}: `rng=rng` handed through by a function whose own `rng`
    # has the same default is "the default" as long as nobody at the top of the chain passes anything else
    enclosing_defaults: Dict[int, Dict[str, ast.expr]] = {}
    for _mod, fdef, _qual, _cls in _vocab_functions(trees):
        a_ = fdef.args
        pos_ = a_.posonlyargs + a_.args
        dm_ = {p2.arg: d2 for p2, d2 in zip(pos_[len(pos_) - len(a_.defaults):], a_.defaults)}
        dm_.update({p2.arg: d2 for p2, d2 in zip(a_.kwonlyargs, a_.kw_defaults) if d2 is not None})
        stored_ = {x.id for x in ast.walk(fdef) if isinstance(x, ast.Name) and isinstance(x.ctx, (ast.Store, ast.Del))}
        pinned_ = {x.lstrip("*") for x in sigs.get(_qual, [])}       # an EXISTING parameter can carry a caller's value
        dm_ = {k_: v_ for k_, v_ in dm_.items() if k_ not in stored_ and k_ not in pinned_}
        if dm_:
            for c_ in ast.walk(fdef):
                if isinstance(c_, ast.Call):
                    enclosing_defaults.setdefault(id(c_), {}).update(dm_)
    removed: Dict[str, Dict[str, ast.expr]] = {}         # function NAME -> {param: default}
    removed_pos: Dict[str, Dict[int, ast.expr]] = {}     # function NAME -> {explicit positional index: default}
    for mod, fn, qual, cls in _vocab_functions(trees):
        if qual not in sigs:
            continue
        known = {x.lstrip("*") for x in sigs[qual]}
        a = fn.args
        pos = a.posonlyargs + a.args
        dmap = {}
        for p_, d_ in zip(pos[len(pos) - len(a.defaults):], a.defaults):
            dmap[p_.arg] = d_
        for p_, d_ in zip(a.kwonlyargs, a.kw_defaults):
            if d_ is not None:
                dmap[p_.arg] = d_
        pos_before = list(pos)
        for p_ in list(pos) + list(a.kwonlyargs):
            if p_.arg in known or p_.arg not in dmap or not (is_const or _immutable_literal)(dmap[p_.arg]):
                continue
            if p_ in pos and any(q.arg in known for q in pos[pos.index(p_) + 1:]):
                continue          # not at the tail: removing it would shift existing positional parameters
            # the calls that exist in the repo must themselves run with the default: a caller that was changed to hand
            # in something else takes the new path, and then the new path IS what existing behaviour goes through
            explicit0 = [q.arg for q in pos if not (cls is not None and q is pos[0] and q.arg in ("self", "cls"))]
            pidx = explicit0.index(p_.arg) if p_ in pos else None
            callee_names = {fn.name} | ({cls} if cls is not None and fn.name == "__init__" else set())
            overridden = False
            for n in all_calls:
                nm = n.func.attr if isinstance(n.func, ast.Attribute) else (n.func.id if isinstance(n.func, ast.Name) else None)
                if nm not in callee_names:
                    continue
                vals = [k.value for k in n.keywords if k.arg == p_.arg]
                if pidx is not None and len(n.args) > pidx and not any(isinstance(x, ast.Starred) for x in n.args):
                    vals.append(n.args[pidx])
                if any(k.arg is None for k in n.keywords) or any(isinstance(x, ast.Starred) for x in n.args):
                    vals.append(None)          # **kwargs / *args: unknown
                for v_ in vals:
                    d_ = dmap[p_.arg]
                    same = v_ is not None and ast.unparse(_Fold().visit(copy.deepcopy(v_))) == ast.unparse(_Fold().visit(copy.deepcopy(d_)))
                    if not same and isinstance(v_, ast.Name):
                        ed_ = enclosing_defaults.get(id(n), {}).get(v_.id)
                        same = ed_ is not None and ast.unparse(_Fold().visit(copy.deepcopy(ed_))) == ast.unparse(_Fold().visit(copy.deepcopy(d_)))
                    if not same:
                        overridden = True
            if overridden:
                continue
            if not _specialise_param(fn, p_.arg, dmap[p_.arg]):
                continue
            was_kwonly = p_ in a.kwonlyargs
            if p_ in a.kwonlyargs:
                k = a.kwonlyargs.index(p_)
                a.kwonlyargs.pop(k)
                a.kw_defaults.pop(k)
            else:
                lst = a.args if p_ in a.args else a.posonlyargs
                k_from_end = len(pos) - pos.index(p_)
                a.defaults.pop(len(a.defaults) - k_from_end)
                lst.remove(p_)
                pos = a.posonlyargs + a.args
            removed.setdefault(fn.name, {})[p_.arg] = dmap[p_.arg]
            if not was_kwonly:
                explicit = [q.arg for q in pos_before if not (cls is not None and q is pos_before[0] and q.arg in ("self", "cls"))]
                removed_pos.setdefault(fn.name, {})[explicit.index(p_.arg)] = dmap[p_.arg]
            log.append(f"O {mod}:{fn.lineno} `{qual}` specialised to the default of its new optional parameter `{p_.arg}={ast.unparse(dmap[p_.arg])}`")
        fold_function(fn)
    if not removed:
        return
    # keyword arguments that pass the very default on
    for mod, tree in trees.items():
        for n in ast.walk(tree):
            if isinstance(n, ast.Call) and n.keywords:
                nm = n.func.attr if isinstance(n.func, ast.Attribute) else (n.func.id if isinstance(n.func, ast.Name) else None)
                if nm in removed:
                    keep = []
                    for k in n.keywords:
                        d_ = removed[nm].get(k.arg) if k.arg else None
                        if d_ is not None and isinstance(k.value, ast.Constant) and isinstance(d_, ast.Constant) and k.value.value == d_.value and type(k.value.value) is type(d_.value):
                            continue
                        keep.append(k)
                    n.keywords = keep
            if isinstance(n, ast.Call) and n.args and not any(isinstance(x, ast.Starred) for x in n.args):
                nm = n.func.attr if isinstance(n.func, ast.Attribute) else (n.func.id if isinstance(n.func, ast.Name) else None)
                # trailing positional arguments that hand the very default on
                while nm in removed_pos and (len(n.args) - 1) in removed_pos[nm]:
                    d_ = removed_pos[nm][len(n.args) - 1]
                    v_ = n.args[-1]
                    if isinstance(v_, ast.Constant) and isinstance(d_, ast.Constant) and v_.value == d_.value and type(v_.value) is type(d_.value):
                        n.args.pop()
                    else:
                        break


def const_args_pass(trees: Dict[str, ast.Module], vocab: dict, log: List[str], is_const) -> None:
    """O2: a NEW function (a helper hoisted out of, or shared between, existing functions) one of whose parameters
    receives the same constant at every call made from the existing functions is specialised to that constant, and the
    argument is dropped at those calls: `C = _zeta(alpha, 1e-06)` with `def _zeta(s, tol)` reads as the pinned
    `C = zeta(alpha)` with the tolerance written in the body."""
    sigs = vocab.get("params")
    if not sigs:
        return
    new: Dict[str, tuple] = {}
    dup = set()
    vocab_fns = []
    for mod, fn, qual, cls in _vocab_functions(trees):
        if qual in sigs:
            vocab_fns.append(fn)
        else:
            if fn.name in new:
                dup.add(fn.name)
            new[fn.name] = (fn, cls is not None, mod)
    for d_ in dup:
        new.pop(d_, None)
    if not new:
        return
    calls: Dict[str, list] = {}
    called_from_vocab = set()
    for vf in vocab_fns:
        for n in ast.walk(vf):
            if isinstance(n, ast.Call):
                nm = n.func.attr if isinstance(n.func, ast.Attribute) else (n.func.id if isinstance(n.func, ast.Name) else None)
                if nm in new:
                    called_from_vocab.add(nm)
    # every call site in the program has to agree (a helper reached through another new helper with a different
    # argument must keep its parameter)
    excluded = _calls_outside_existing_behaviour(trees, sigs)
    for tree in trees.values():
        for n in ast.walk(tree):
            if isinstance(n, ast.Call) and id(n) not in excluded:
                nm = n.func.attr if isinstance(n.func, ast.Attribute) else (n.func.id if isinstance(n.func, ast.Name) else None)
                if nm in new and (isinstance(n.func, ast.Attribute) == new[nm][1] or isinstance(n.func, ast.Name) and not new[nm][1]):
                    calls.setdefault(nm, []).append(n)
    for name, (g, is_m, mod) in new.items():
        sites = calls.get(name)
        a = g.args
        if not sites or a.vararg or a.kwarg or name not in called_from_vocab:
            continue
        if any(isinstance(x, ast.Starred) for c in sites for x in c.args) or any(k.arg is None for c in sites for k in c.keywords):
            continue
        pos = a.posonlyargs + a.args
        dmap = {}
        for p_, d_ in zip(pos[len(pos) - len(a.defaults):], a.defaults):
            dmap[p_.arg] = d_
        for p_, d_ in zip(a.kwonlyargs, a.kw_defaults):
            if d_ is not None:
                dmap[p_.arg] = d_
        if is_m and pos and pos[0].arg in ("self", "cls") and not any(ast.unparse(d) == "staticmethod" for d in g.decorator_list):
            pos = pos[1:]
        changed = False
        for i, p_ in list(enumerate(pos)) + [(None, q) for q in a.kwonlyargs]:
            vals = []
            for c in sites:
                kw = [k for k in c.keywords if k.arg == p_.arg]
                if i is not None and i < len(c.args):
                    vals.append(c.args[i])
                elif kw:
                    vals.append(kw[0].value)
                elif p_.arg in dmap:
                    vals.append(dmap[p_.arg])
                else:
                    vals = None
                    break
            if not vals or not all(is_const(v) for v in vals) or len({ast.unparse(_Fold().visit(copy.deepcopy(v))) for v in vals}) != 1:
                continue
            if not _specialise_param(g, p_.arg, _Fold().visit(copy.deepcopy(vals[0]))):
                continue
            for c in sites:
                if i is not None and i == len(c.args) - 1:
                    c.args.pop()
                else:
                    c.keywords = [k for k in c.keywords if k.arg != p_.arg]
            changed = True
            log.append(f"O2 {mod}:{g.lineno} new function `{name}` specialised to `{p_.arg}={ast.unparse(vals[0])}`, the constant every existing caller passes")
        if changed:
            fold_function(g)


def instance_constants(trees: Dict[str, ast.Module], vocab: dict) -> Dict[str, Dict[str, ast.expr]]:
    """A NEW instance attribute that is assigned exactly once in the whole program - in a constructor, to an immutable
    literal (typically the stored default of a new optional parameter, or a hook that defaults to None) - reads as that
    literal in the class's methods."""
    known = vocab.get("class_attrs_assigned", {})
    stores: Dict[str, int] = {}
    for tree in trees.values():
        for n in ast.walk(tree):
            if isinstance(n, ast.Attribute) and isinstance(n.ctx, (ast.Store, ast.Del)):
                stores[n.attr] = stores.get(n.attr, 0) + 1
    out: Dict[str, Dict[str, ast.expr]] = {}
    for tree in trees.values():
        for st in tree.body:
            if not isinstance(st, ast.ClassDef) or st.name not in known:
                continue
            for c in st.body:
                if isinstance(c, ast.FunctionDef) and c.name == "__init__":
                    for n in ast.walk(c):
                        if isinstance(n, ast.Assign) and len(n.targets) == 1 and isinstance(n.targets[0], ast.Attribute) and isinstance(n.targets[0].value, ast.Name) \
                                and n.targets[0].value.id == "self" and _immutable_literal(n.value):
                            x = n.targets[0].attr
                            if x not in known.get(st.name, []) and stores.get(x) == 1 and not any(x in known.get(k, []) for k in known):
                                out.setdefault(st.name, {})[x] = n.value
    return out


_BUILTIN_TYPES = {"int", "float", "str", "bool", "list", "tuple", "dict", "set", "frozenset", "bytes", "complex"}


def _immutable_literal(e) -> bool:
    if isinstance(e, ast.Constant):
        return True
    if isinstance(e, ast.UnaryOp) and isinstance(e.op, (ast.USub, ast.UAdd)) and isinstance(e.operand, ast.Constant):
        return True
    if isinstance(e, ast.Tuple):
        return all(_immutable_literal(x) or (isinstance(x, ast.Name) and x.id in _BUILTIN_TYPES) for x in e.elts)
    if isinstance(e, ast.BinOp) and isinstance(e.op, (ast.Add, ast.Sub, ast.Mult, ast.Div, ast.Pow)):
        return _immutable_literal(e.left) and _immutable_literal(e.right)
    return False


def constants_and_noise_pass(trees: Dict[str, ast.Module], log: List[str]) -> None:
    """K: a module-level or class-level name that does not exist on the pinned tree and is bound exactly once to an
       immutable literal is a named constant: its value is substituted where it is read (`_TOL`, `self._TOL`,
       `Cls._TOL`).
    D: `assert` statements and calls of logger methods carry no behaviour the properties speak about (the pinned tree
       has no assert; its logging calls are already ignored by the rules): they are dropped."""
    try:
        d = json.load(open(os.path.join(VERIF, "known_functions.json")))
    except Exception:
        return
    if "module_names" not in d:
        return
    known_mod = d.get("module_names", {})
    known_cls = d.get("class_level_names", {})
    # ---- collect new constants
    mod_consts: Dict[str, Dict[str, ast.expr]] = {}
    cls_consts: Dict[str, Dict[str, ast.expr]] = {}
    imported: Dict[str, Dict[str, ast.expr]] = {}
    repo_classes = {st.name for tr in trees.values() for st in tr.body if isinstance(st, ast.ClassDef)}

    stored_attrs: set = set()

    def attr_stored(name: str) -> bool:
        return name in stored_attrs

    def constant_value(e) -> bool:
        """an immutable literal, or a member of one of the repo's constant-holder classes (NetworkNames.TOPOLOGY)"""
        if _immutable_literal(e):
            return True
        return isinstance(e, ast.Attribute) and isinstance(e.value, ast.Name) and e.value.id in repo_classes and not attr_stored(e.attr)

    def collect():
        mod_consts.clear()
        cls_consts.clear()
        imported.clear()
        stored_attrs.clear()
        stored_attrs.update(x.attr for tr in trees.values() for x in ast.walk(tr) if isinstance(x, ast.Attribute) and isinstance(x.ctx, (ast.Store, ast.Del)))
        for mod, tree in trees.items():
            counts: Dict[str, int] = {}
            for n in ast.walk(tree):
                if isinstance(n, ast.Name) and isinstance(n.ctx, (ast.Store, ast.Del)):
                    counts[n.id] = counts.get(n.id, 0) + 1
                if isinstance(n, ast.Global):
                    for x in n.names:
                        counts[x] = counts.get(x, 0) + 5
            for st in tree.body:
                if isinstance(st, ast.Assign) and len(st.targets) == 1 and constant_value(st.value):
                    t = st.targets[0]
                    if isinstance(t, ast.Name) and counts.get(t.id) == 1 and t.id not in known_mod.get(mod, []):
                        mod_consts.setdefault(mod, {})[t.id] = st.value
                # `_A, _B = 0, 1`: one constant per position
                if isinstance(st, ast.Assign) and len(st.targets) == 1 and isinstance(st.targets[0], ast.Tuple) and isinstance(st.value, ast.Tuple) \
                        and len(st.targets[0].elts) == len(st.value.elts) and all(isinstance(t, ast.Name) for t in st.targets[0].elts) \
                        and not any(isinstance(v, ast.Starred) for v in st.value.elts):
                    for t, v in zip(st.targets[0].elts, st.value.elts):
                        if constant_value(v) and counts.get(t.id) == 1 and t.id not in known_mod.get(mod, []):
                            mod_consts.setdefault(mod, {})[t.id] = v
                if isinstance(st, ast.ClassDef):
                    for c in st.body:
                        if isinstance(c, ast.Assign) and len(c.targets) == 1 and constant_value(c.value):
                            t = c.targets[0]
                            if isinstance(t, ast.Name) and t.id not in known_cls.get(st.name, []) and st.name in known_cls:
                                # never assigned through an instance / the class elsewhere
                                if not attr_stored(t.id):
                                    cls_consts.setdefault(st.name, {})[t.id] = c.value
        # imports of module constants:  from gcmpy.x import _TOL
        for mod, tree in trees.items():
            for st in ast.walk(tree):
                if isinstance(st, ast.ImportFrom) and st.module in mod_consts and not st.level:
                    for a in st.names:
                        if a.name in mod_consts[st.module]:
                            imported.setdefault(mod, {})[a.asname or a.name] = mod_consts[st.module][a.name]
    collect()

    class K(ast.NodeTransformer):
        def __init__(self, mod, cls):
            self.mod, self.cls = mod, cls
            self.local_stack = []

        def visit_FunctionDef(self, node):
            loc = {a.arg for a in node.args.posonlyargs + node.args.args + node.args.kwonlyargs}
            loc |= {n.id for n in ast.walk(node) if isinstance(n, ast.Name) and isinstance(n.ctx, (ast.Store, ast.Del))}
            self.local_stack.append(loc)
            self.generic_visit(node)
            self.local_stack.pop()
            return node

        def visit_ClassDef(self, node):
            old = self.cls
            self.cls = node.name
            self.generic_visit(node)
            self.cls = old
            return node

        def visit_Name(self, node):
            if isinstance(node.ctx, ast.Load) and self.local_stack and not any(node.id in l for l in self.local_stack):
                v = mod_consts.get(self.mod, {}).get(node.id) or imported.get(self.mod, {}).get(node.id)
                if v is not None:
                    log.append(f"K {self.mod}:{node.lineno} constant `{node.id}` substituted")
                    return ast.copy_location(copy.deepcopy(v), node)
            return node

        def visit_Call(self, node):
            self.generic_visit(node)
            # getattr(self, "X", default) reads self.X
            if isinstance(node.func, ast.Name) and node.func.id == "getattr" and 2 <= len(node.args) <= 3 and not node.keywords \
                    and isinstance(node.args[1], ast.Constant) and isinstance(node.args[1].value, str) and isinstance(node.args[0], ast.Name):
                probe = ast.copy_location(ast.Attribute(value=node.args[0], attr=node.args[1].value, ctx=ast.Load()), node)
                r = self.visit_Attribute(probe)
                if r is not probe:
                    return r
            return node

        def visit_Attribute(self, node):
            self.generic_visit(node)
            if isinstance(node.ctx, ast.Load) and isinstance(node.value, ast.Name) and self.local_stack:
                owner = None
                if node.value.id in ("self", "cls") and self.cls:
                    owner = self.cls
                elif node.value.id in cls_consts:
                    owner = node.value.id
                if owner is not None:
                    # through the MRO is not needed for the cases at hand: the class that defines it, or a subclass by name
                    for cname, consts in cls_consts.items():
                        if node.attr in consts and (cname == owner or owner in _subclasses_of(trees, cname)):
                            log.append(f"K {self.mod}:{node.lineno} class constant `{cname}.{node.attr}` substituted")
                            return ast.copy_location(copy.deepcopy(consts[node.attr]), node)
            return node

    # ---- D: drop asserts and logger calls
    def is_log_call(st):
        if not (isinstance(st, ast.Expr) and isinstance(st.value, ast.Call) and isinstance(st.value.func, ast.Attribute)):
            return False
        if st.value.func.attr not in ("debug", "info", "warning", "error", "exception", "critical", "log"):
            return False
        recv = ast.unparse(st.value.func.value)
        if recv == "self._logger":
            return False        # the pinned tree's own idiom; the rules skip these calls themselves
        return "log" in recv.lower()

    def strip(blk):
        changed = False
        out = []
        for st in blk:
            if isinstance(st, ast.Assert):
                log.append(f"D {getattr(st, 'lineno', 0)} assert dropped")
                changed = True
                continue
            if is_log_call(st):
                log.append(f"D {st.lineno} log call dropped")
                changed = True
                continue
            if isinstance(st, ast.If) and len(st.body) >= 1 and all(is_log_call(x) for x in st.body) and not st.orelse \
                    and not any(isinstance(x, ast.Call) for x in ast.walk(st.test) if not (isinstance(x, ast.Call) and isinstance(x.func, ast.Attribute) and x.func.attr == "isEnabledFor")):
                log.append(f"D {st.lineno} guarded log call dropped")
                changed = True
                continue
            for f in ("body", "orelse", "finalbody"):
                b = getattr(st, f, None)
                if isinstance(b, list) and b and isinstance(b[0], ast.stmt):
                    nb, ch = strip(b)
                    if ch:
                        setattr(st, f, nb or [ast.copy_location(ast.Pass(), st)])
                        changed = True
            if isinstance(st, ast.Try):
                for h in st.handlers:
                    nb, ch = strip(h.body)
                    if ch:
                        h.body = nb or [ast.copy_location(ast.Pass(), h)]
                        changed = True
                # R: `try: BODY except X: raise` (bare re-raise in every handler, no else / finally) is BODY
                if not st.orelse and not st.finalbody and st.handlers and all(len(h.body) == 1 and isinstance(h.body[0], ast.Raise) and h.body[0].exc is None for h in st.handlers):
                    log.append(f"R {st.lineno} try block whose handlers only re-raise unwrapped")
                    out.extend(st.body)
                    changed = True
                    continue
            out.append(st)
        return out, changed

    for mod, tree in trees.items():
        if mod_consts.get(mod) or imported.get(mod) or cls_consts:
            K(mod, None).visit(tree)
    # O: new optional parameters specialised to their defaults; then the instance attributes that only ever hold such a default
    # sentinels: NEW module-level names bound exactly once (to anything): as a default they identify "not given"
    sentinels = set()
    for mod, tree in trees.items():
        cnt: Dict[str, int] = {}
        for n in ast.walk(tree):
            if isinstance(n, ast.Name) and isinstance(n.ctx, (ast.Store, ast.Del)):
                cnt[n.id] = cnt.get(n.id, 0) + 1
            elif isinstance(n, ast.Global):
                for x in n.names:
                    cnt[x] = cnt.get(x, 0) + 5
        for st in tree.body:
            if isinstance(st, ast.Assign) and len(st.targets) == 1 and isinstance(st.targets[0], ast.Name) and cnt.get(st.targets[0].id) == 1 \
                    and st.targets[0].id not in known_mod.get(mod, []) and isinstance(st.value, ast.Call) and ast.unparse(st.value) == "object()":
                sentinels.add(st.targets[0].id)
    _Fold.stable_names = sentinels
    for _round in range(4):
        before = len(log)
        optional_params_pass(trees, d, log, lambda e: constant_value(e) or (isinstance(e, ast.Name) and e.id in sentinels))
        for tree in trees.values():
            for n in ast.walk(tree):
                if isinstance(n, (ast.FunctionDef, ast.AsyncFunctionDef)):
                    fold_function(n)
        # what became a constant once the dead stores of the specialised parameters are gone (and then which further
        # parameters only ever receive their default: `rng=self._rng` with `self._rng` always None)
        collect()
        for cname, cs in instance_constants(trees, d).items():
            cls_consts.setdefault(cname, {}).update(cs)
        if mod_consts or cls_consts or imported:
            for mod, tree in trees.items():
                K(mod, None).visit(tree)
        const_args_pass(trees, d, log, constant_value)
        # locals that now hold a constant (`rng = self._rng` with `self._rng` always None) are propagated, so that the
        # next round sees `f(.., rng=None)` at the call sites
        kl_ = load_locals()
        for mod_, fn_, qual_, _c in _vocab_functions(trees):
            if stable_temp_pass(fn_, qual_, kl_, log, mod_):
                fold_function(fn_)
        if len(log) == before:
            break
    for mod, tree in trees.items():
        for n in ast.walk(tree):
            if isinstance(n, (ast.FunctionDef, ast.AsyncFunctionDef)):
                k = fold_function(n)
                if k:
                    log.append(f"F {mod}:{n.lineno} {k} constant test(s) folded in `{n.name}`")
        for n in ast.walk(tree):
            if isinstance(n, (ast.FunctionDef, ast.AsyncFunctionDef)):
                nb, ch = strip(n.body)
                if ch:
                    n.body = nb or [ast.copy_location(ast.Pass(), n)]
        ast.fix_missing_locations(tree)


def _subclasses_of(trees, cname):
    out = set()
    changed = True
    bases: Dict[str, List[str]] = {}
    for tr in trees.values():
        for st in tr.body:
            if isinstance(st, ast.ClassDef):
                bases[st.name] = [ast.unparse(b).split(".")[-1] for b in st.bases]
    while changed:
        changed = False
        for c, bs in bases.items():
            if c not in out and (cname in bs or any(b in out for b in bs)):
                out.add(c)
                changed = True
    return out


class _DropZipStrict(ast.NodeTransformer):
    """`zip(a, b, strict=..)` pairs the same elements as `zip(a, b)`; `strict` only adds an exception for inputs of unequal
    length, which the properties' inputs do not have: the keyword is dropped so that rules and terms see one spelling."""
    def visit_Call(self, n):
        self.generic_visit(n)
        if isinstance(n.func, ast.Name) and n.func.id == "zip" and any(k.arg == "strict" for k in n.keywords):
            n.keywords = [k for k in n.keywords if k.arg != "strict"]
        return n


class _StarredDisplay(ast.NodeTransformer):
    """`[*xs, a, b]` is `xs + [a, b]` and `[a, *xs]` is `[a] + xs` for a list xs (the rules and the reference formulas
    spell the concatenation)."""
    def visit_List(self, n):
        self.generic_visit(n)
        if isinstance(n.ctx, ast.Load) and len(n.elts) == 1 and isinstance(n.elts[0], ast.Starred):
            # [*xs] is list(xs)
            return ast.copy_location(ast.Call(func=ast.Name(id="list", ctx=ast.Load()), args=[n.elts[0].value], keywords=[]), n)
        if isinstance(n.ctx, ast.Load) and len(n.elts) >= 2:
            stars = [i for i, e in enumerate(n.elts) if isinstance(e, ast.Starred)]
            if stars == [0] and isinstance(n.elts[0].value, ast.Name):
                return ast.copy_location(ast.BinOp(left=n.elts[0].value, op=ast.Add(), right=ast.List(elts=n.elts[1:], ctx=ast.Load())), n)
            if stars == [len(n.elts) - 1] and isinstance(n.elts[-1].value, ast.Name):
                return ast.copy_location(ast.BinOp(left=ast.List(elts=n.elts[:-1], ctx=ast.Load()), op=ast.Add(), right=n.elts[-1].value), n)
        return n


class _SetdefaultIncrement(ast.NodeTransformer):
    """`D[K] = D.setdefault(K, c) + E` is `D[K] = D.get(K, c) + E`: the entry setdefault may create is overwritten by this very
    statement, so only the value read matters."""
    def visit_Assign(self, n):
        self.generic_visit(n)
        if len(n.targets) == 1 and isinstance(n.targets[0], ast.Subscript) and isinstance(n.value, ast.BinOp):
            t = n.targets[0]
            for side in ("left", "right"):
                c = getattr(n.value, side)
                if isinstance(c, ast.Call) and isinstance(c.func, ast.Attribute) and c.func.attr == "setdefault" and len(c.args) == 2 and not c.keywords \
                        and ast.unparse(c.func.value) == ast.unparse(t.value) and ast.unparse(c.args[0]) == ast.unparse(t.slice) and isinstance(c.args[1], ast.Constant):
                    c.func.attr = "get"
        return n


class _SetMethods(ast.NodeTransformer):
    """`A.union({x})` is `A | {x}` and `A.intersection({..})` is `A & {..}` when the argument is itself a set display / set(..) /
    set comprehension (only sets and frozensets have these methods, and with a set operand method and operator agree)."""
    def visit_Call(self, n):
        self.generic_visit(n)
        if isinstance(n.func, ast.Attribute) and n.func.attr in ("union", "intersection") and len(n.args) == 1 and not n.keywords:
            a = n.args[0]
            if isinstance(a, (ast.Set, ast.SetComp)) or (isinstance(a, ast.Call) and isinstance(a.func, ast.Name) and a.func.id in ("set", "frozenset")):
                return ast.copy_location(ast.BinOp(left=n.func.value, op=ast.BitOr() if n.func.attr == "union" else ast.BitAnd(), right=a), n)
        return n


class _DropAnnotations(ast.NodeTransformer):
    """`x: T = v` is `x = v` and a bare `x: T` is nothing: annotations on assignments carry no behaviour.  Applied to
    every tree (the pinned one too - it is not counted as a rewrite), so that no rule has to know both spellings."""
    def visit_AnnAssign(self, n):
        self.generic_visit(n)
        if n.value is None:
            return ast.copy_location(ast.Pass(), n)
        return ast.copy_location(ast.Assign(targets=[n.target], value=n.value, type_comment=None), n)


def _drop_redundant_pass(tree):
    for n in ast.walk(tree):
        for f in ("body", "orelse", "finalbody"):
            b = getattr(n, f, None)
            if isinstance(b, list) and len(b) > 1 and any(isinstance(x, ast.Pass) for x in b) and isinstance(b[0], ast.stmt):
                nb = [x for x in b if not isinstance(x, ast.Pass)]
                setattr(n, f, nb or [b[0]])


def _attr_sequence(cls: ast.ClassDef) -> list:
    """[(attribute, value node, 'class' | 'init')] in creation order, as recorded in known_functions.json `attr_order`"""
    seq = []
    for c in cls.body:
        if isinstance(c, ast.Assign) and len(c.targets) == 1 and isinstance(c.targets[0], ast.Name):
            seq.append((c.targets[0].id, c.value, "class"))
        if isinstance(c, ast.FunctionDef) and c.name == "__init__":
            nodes = [n for n in ast.walk(c) if isinstance(n, ast.Assign) and len(n.targets) == 1 and isinstance(n.targets[0], ast.Attribute)
                     and isinstance(n.targets[0].value, ast.Name) and n.targets[0].value.id == "self"]
            nodes.sort(key=lambda n: (n.lineno, n.col_offset))
            seen = set()
            for n in nodes:
                if n.targets[0].attr not in seen:
                    seen.add(n.targets[0].attr)
                    seq.append((n.targets[0].attr, n.value, "init"))
    return seq


def rename_canonical_pass(trees: Dict[str, ast.Module], log: List[str]) -> None:
    """V: private state and private functions that were RENAMED are renamed back to the names of the pinned tree.
    Attributes: a class's pinned attribute that occurs nowhere in the program any more, while at the same place of the
    creation sequence (class body, then first assignments in __init__) there is a new attribute with a value of the same
    syntactic kind - and the numbers of vanished and of new attributes of the class agree.  Functions: a pinned method /
    module-level function that is defined nowhere any more, and exactly one new function (same class / module level)
    whose abstract shape is clearly the closest to the pinned one.  Without this every rule that speaks about
    `self._probs` would have to discover the attribute's name anew."""
    try:
        d = json.load(open(os.path.join(VERIF, "known_functions.json")))
    except Exception:
        return
    order = d.get("attr_order")
    if not order:
        return
    lib = _library_method_names()
    classes = {cls.name: (mod, cls) for mod, tree in trees.items() for cls in tree.body if isinstance(cls, ast.ClassDef)}

    def family(name):
        fam = {name} | _subclasses_of(trees, name)
        todo = [name]
        while todo:
            c_ = todo.pop()
            if c_ in classes:
                for b_ in classes[c_][1].bases:
                    bn = ast.unparse(b_).split(".")[-1]
                    if bn in classes and bn not in fam:
                        fam.add(bn)
                        todo.append(bn)
        return fam
    known_attrs = d.get("class_attrs_assigned", {})
    for cname, (mod, cls) in classes.items():
        if cname not in order:
            continue
        fam = family(cname)
        fam_nodes = [classes[c_][1] for c_ in fam if c_ in classes]
        used_here = {n.attr for fc in fam_nodes for n in ast.walk(fc) if isinstance(n, ast.Attribute)}
        pinned_here = {a for c_ in fam for a, _, _ in order.get(c_, [])} | {a for c_ in fam for a in known_attrs.get(c_, [])}
        cur = _attr_sequence(cls)
        cur_names = [x[0] for x in cur]
        missing = [(a, v, k) for a, v, k in order[cname] if a not in used_here and a not in cur_names]
        fresh = [(b, v, k) for b, v, k in cur if b not in pinned_here and b not in lib]
        if not missing or len(missing) != len(fresh):
            continue

        def _kind(src_or_node):
            try:
                node = ast.parse(src_or_node, mode="eval").body if isinstance(src_or_node, str) else src_or_node
            except Exception:
                return None
            return type(node).__name__
        if not all(km == kf and (_kind(va) == _kind(vf) or _kind(va) in ("Constant", "Name") or _kind(vf) in ("Constant", "Name")) for (a, va, km), (b, vf, kf) in zip(missing, fresh)):
            continue
        ren = {b: a for (a, _, _), (b, _, _) in zip(missing, fresh)}
        for fc in fam_nodes:
            for n in ast.walk(fc):
                if isinstance(n, ast.Attribute) and n.attr in ren:
                    n.attr = ren[n.attr]
            for c in fc.body:          # class-level spelling of the same attribute
                if isinstance(c, ast.Assign) and len(c.targets) == 1 and isinstance(c.targets[0], ast.Name) and c.targets[0].id in ren:
                    c.targets[0].id = ren[c.targets[0].id]
        # other classes reach into the object too (`self._MPM._graph`): when the new name is nobody's pinned attribute, it
        # can only mean this one - renamed program-wide
        all_pinned = {a for seq in order.values() for a, _, _ in seq} | {a for lst in known_attrs.values() for a in lst}
        wide = {b: a for b, a in ren.items() if b not in all_pinned}
        if wide:
            for tree in trees.values():
                for n in ast.walk(tree):
                    if isinstance(n, ast.Attribute) and n.attr in wide:
                        n.attr = wide[n.attr]
        for b, a in ren.items():
            log.append(f"V {mod}: attribute `{cname}.{b}` is the pinned `{a}` under a new name: renamed back (in {sorted(fam)}{', and where others reach in' if b in wide else ''})")
    # ---- functions
    shapes = d.get("shapes", {})
    vocab = set(d.get("functions", []))
    from .pm import shape_tokens, shape_similarity
    defined: Dict[str, int] = {}
    for tree in trees.values():
        for n in ast.walk(tree):
            if isinstance(n, (ast.FunctionDef, ast.AsyncFunctionDef)):
                defined[n.name] = defined.get(n.name, 0) + 1
    fn_renames: Dict[str, str] = {}
    groups = []       # (owner label, {name: node} of current top-level functions / methods of one class)
    for mod, tree in trees.items():
        groups.append((None, mod, {st.name: st for st in tree.body if isinstance(st, ast.FunctionDef)}))
        for cls in tree.body:
            if isinstance(cls, ast.ClassDef):
                groups.append((cls.name, mod, {c.name: c for c in cls.body if isinstance(c, ast.FunctionDef)}))
    module_level_pinned = {q for q in vocab if "." not in q}
    all_module_level_now = {nm for owner, _m, fns in groups if owner is None for nm in fns}
    for owner, mod, fns in groups:
        if owner is None:
            missing = [q for q in module_level_pinned if q not in defined]
            fresh = [nm for nm in fns if nm not in vocab and nm not in lib]
            keyf = lambda q: q
        else:
            pinned = {q.split(".", 1)[1] for q in vocab if q.startswith(owner + ".") and q.count(".") == 1}
            pinned = {q[:-7] if q.endswith(".setter") else q for q in pinned}
            missing = [m_ for m_ in pinned if m_ not in fns and not defined.get(m_)]
            fresh = [nm for nm in fns if nm not in pinned and f"{owner}.{nm}" not in vocab and nm not in lib and not (nm.startswith("__") and nm.endswith("__"))]
            keyf = lambda m_: f"{owner}.{m_}"
        for m_ in missing:
            ref = shapes.get(keyf(m_))
            if not ref or len(ref) < 4:
                continue
            scored = sorted(((shape_similarity(ref, shape_tokens(fns[nm])), nm) for nm in fresh if nm not in fn_renames), reverse=True)
            if scored and scored[0][0] >= 0.55 and (len(scored) == 1 or scored[0][0] - scored[1][0] >= 0.15) and defined.get(scored[0][1]) == 1:
                fn_renames[scored[0][1]] = m_
                log.append(f"V {mod}: function `{(owner + '.') if owner else ''}{scored[0][1]}` is the pinned `{m_}` under a new name ({int(scored[0][0] * 100)}% of its shape): renamed back")
    if fn_renames:
        for tree in trees.values():
            for n in ast.walk(tree):
                if isinstance(n, (ast.FunctionDef, ast.AsyncFunctionDef)) and n.name in fn_renames:
                    n.name = fn_renames[n.name]
                elif isinstance(n, ast.Attribute) and n.attr in fn_renames:
                    n.attr = fn_renames[n.attr]
                elif isinstance(n, ast.Name) and n.id in fn_renames:
                    n.id = fn_renames[n.id]
                elif isinstance(n, ast.alias) and n.name in fn_renames:
                    n.name = fn_renames[n.name]


class _LowerMatch(ast.NodeTransformer):
    """M: `match S:` over wildcards, constants, alternatives of constants and fixed-length sequence patterns of wildcards, with
    optional guards, is the if / elif chain that tests the same things in the same order (S is a name, an attribute / subscript
    of names, or len() of one: evaluating it once or once per test is the same).  Anything that binds a name (captures, class
    and mapping patterns, starred parts) is left as it is."""

    def __init__(self, mod: str, log: List[str]):
        self.mod, self.log = mod, log

    @staticmethod
    def _simple(e) -> bool:
        if isinstance(e, ast.Call) and isinstance(e.func, ast.Name) and e.func.id == "len" and len(e.args) == 1 and not e.keywords:
            return _LowerMatch._simple(e.args[0])
        while isinstance(e, (ast.Attribute, ast.Subscript)):
            if isinstance(e, ast.Subscript) and not isinstance(e.slice, (ast.Constant, ast.Name)):
                return False
            e = e.value
        return isinstance(e, ast.Name)

    def _test(self, subj, pat):
        import copy
        S = lambda: copy.deepcopy(subj)
        if isinstance(pat, ast.MatchAs) and pat.pattern is None and pat.name is None:
            return True
        if isinstance(pat, ast.MatchValue) and isinstance(pat.value, (ast.Constant, ast.Attribute)) or \
                (isinstance(pat, ast.MatchValue) and isinstance(pat.value, ast.UnaryOp) and isinstance(pat.value.operand, ast.Constant)):
            return ast.Compare(left=S(), ops=[ast.Eq()], comparators=[copy.deepcopy(pat.value)])
        if isinstance(pat, ast.MatchSingleton):
            return ast.Compare(left=S(), ops=[ast.Is()], comparators=[ast.Constant(value=pat.value)])
        if isinstance(pat, ast.MatchOr):
            parts = [self._test(subj, p_) for p_ in pat.patterns]
            if any(p_ is None for p_ in parts):
                return None
            if any(p_ is True for p_ in parts):
                return True
            return ast.BoolOp(op=ast.Or(), values=parts)
        if isinstance(pat, ast.MatchSequence) and all(isinstance(p_, ast.MatchAs) and p_.pattern is None and p_.name is None for p_ in pat.patterns):
            # a sequence pattern matches any Sequence but str / bytes / bytearray, of exactly that length
            seq = ast.Call(func=ast.Name(id="isinstance", ctx=ast.Load()), args=[S(), ast.Name(id="Sequence", ctx=ast.Load())], keywords=[])
            nstr = ast.UnaryOp(op=ast.Not(), operand=ast.Call(func=ast.Name(id="isinstance", ctx=ast.Load()), args=[
                S(), ast.Tuple(elts=[ast.Name(id=n_, ctx=ast.Load()) for n_ in ("str", "bytes", "bytearray")], ctx=ast.Load())], keywords=[]))
            ln = ast.Compare(left=ast.Call(func=ast.Name(id="len", ctx=ast.Load()), args=[S()], keywords=[]), ops=[ast.Eq()], comparators=[ast.Constant(value=len(pat.patterns))])
            return ast.BoolOp(op=ast.And(), values=[seq, nstr, ln])
        return None

    def visit_Match(self, node):
        self.generic_visit(node)
        if not self._simple(node.subject):
            return node
        tests = []
        for c in node.cases:
            t = self._test(node.subject, c.pattern)
            if t is None:
                return node
            if c.guard is not None:
                t = c.guard if t is True else ast.BoolOp(op=ast.And(), values=[t, c.guard])
            tests.append(t)
        chain = None
        # cases after an irrefutable one are unreachable
        cut = next((i for i, t in enumerate(tests) if t is True), None)
        cases = list(zip(tests, node.cases))[: (cut + 1) if cut is not None else None]
        for t, c in reversed(cases):
            if t is True:
                chain = list(c.body)
            else:
                chain = [ast.If(test=t, body=list(c.body), orelse=chain or [])]
        self.log.append(f"M {self.mod}:{node.lineno} match statement over constants / wildcards written out as an if chain")
        out = chain or [ast.Pass()]
        for o_ in out:
            ast.copy_location(o_, node)
            ast.fix_missing_locations(o_)
        return out if len(out) != 1 else out[0]


def normalize_program(trees: Dict[str, ast.Module]) -> List[str]:
    log: List[str] = []
    for mod_, tree in trees.items():
        _DropAnnotations().visit(tree)
        _DropZipStrict().visit(tree)
        _StarredDisplay().visit(tree)
        _SetMethods().visit(tree)
        _SetdefaultIncrement().visit(tree)
        _LowerMatch(mod_, log).visit(tree)
        ast.fix_missing_locations(tree)
    rename_canonical_pass(trees, log)
    constants_and_noise_pass(trees, log)
    n = Normalizer(trees, load_vocabulary())
    n.log = log + n.log
    n.run()
    return n.log
