#!/venv/bin/python
"""Run every property's quick check against the confirmed behaviour-preserving refactorings under /verif/twins/<name>/
(on a scratch copy with the patch applied; /repo is never touched).  A VIOLATION on a twin is a false alarm."""
import contextlib
import io
import json
import os
import shutil
import subprocess
import sys
import tempfile

VERIF = os.path.dirname(os.path.dirname(os.path.abspath(__file__)))
sys.path.insert(0, VERIF)
sys.dont_write_bytecode = True
import check as check_mod  # noqa: E402


def main():
    root = os.path.join(VERIF, "twins")
    names = sys.argv[1:] or sorted(d for d in os.listdir(root) if os.path.isdir(os.path.join(root, d)))
    bad = 0
    for nm in names:
        d = os.path.join(root, nm)
        tmp = tempfile.mkdtemp(prefix="gcmverif_twinrun_")
        try:
            shutil.copytree("/repo/gcmpy", os.path.join(tmp, "gcmpy"), ignore=shutil.ignore_patterns("__pycache__"))
            r = subprocess.run(["git", "apply", "--unsafe-paths", "--directory", tmp, os.path.join(d, "patch.diff")], capture_output=True, text=True, cwd=tmp)
            if r.returncode != 0:
                print(f"{nm:24s} patch does not apply to the current tree (skipped)")
                continue
            alarms, und = [], []
            for p in check_mod.ALL:
                buf = io.StringIO()
                with contextlib.redirect_stdout(buf):
                    code, results = check_mod.run_property(p, tmp, "quick", write=False, quiet=True)
                for x in results:
                    if x.status == "VIOLATED" and not x.known:
                        alarms.append(f"{x.obligation} {x.function} ({x.where}): {x.reason[:200]}")
                    elif x.status == "UNDECIDED":
                        und.append(f"{x.obligation} {x.function}: {x.reason[:120]}")
            status = "FALSE-ALARM" if alarms else ("undecided" if und else "silent")
            bad += bool(alarms)
            print(f"{nm:24s} {status:12s} alarms={len(alarms)} undecided={len(und)}")
            for a in alarms:
                print("    ALARM " + a)
            for u in und:
                print("    und   " + u)
        finally:
            shutil.rmtree(tmp, ignore_errors=True)
    return 1 if bad else 0


if __name__ == "__main__":
    sys.exit(main())
