#!/venv/bin/python
"""Run every property's quick check against the confirmed behaviour-preserving refactorings under /verif/twins/<name>/
(on a scratch copy with the patch applied; /repo is never touched).  A VIOLATION on a twin is a false alarm."""
import contextlib
import io
import json
import os
import shutil
import subprocess
import sys
import tempfile

VERIF = os.path.dirname(os.path.dirname(os.path.abspath(__file__)))
sys.path.insert(0, VERIF)
sys.dont_write_bytecode = True
import check as check_mod  # noqa: E402


def one(nm):
    root = os.path.join(VERIF, "twins")
    d = os.path.join(root, nm)
    tmp = tempfile.mkdtemp(prefix="gcmverif_twinrun_")
    lines = []
    try:
        shutil.copytree("/repo/gcmpy", os.path.join(tmp, "gcmpy"), ignore=shutil.ignore_patterns("__pycache__"))
        r = subprocess.run(["git", "apply", "--include=*/gcmpy/*", "--unsafe-paths", "--directory", tmp, os.path.join(d, "patch.diff")], capture_output=True, text=True, cwd=tmp)
        if r.returncode != 0:
            return nm, False, [f"{nm:24s} patch does not apply to the current tree (skipped)"]
        if subprocess.run(["diff", "-rq", "/repo/gcmpy", os.path.join(tmp, "gcmpy")], capture_output=True).returncode == 0:
            return nm, True, [f"{nm:24s} FALSE-ALARM  the patch changed nothing under gcmpy/ (tooling error)"]
        alarms, und = [], []
        for p in check_mod.ALL:
            buf = io.StringIO()
            with contextlib.redirect_stdout(buf):
                code, results = check_mod.run_property(p, tmp, "quick", write=False, quiet=True)
            for x in results:
                if x.status == "VIOLATED" and not x.known:
                    alarms.append(f"{x.obligation} {x.function} ({x.where}): {x.reason[:200]}")
                elif x.status == "UNDECIDED":
                    und.append(f"{x.obligation} {x.function}: {x.reason[:120]}")
        status = "FALSE-ALARM" if alarms else ("undecided" if und else "silent")
        lines.append(f"{nm:24s} {status:12s} alarms={len(alarms)} undecided={len(und)}")
        lines += ["    ALARM " + a for a in alarms] + ["    und   " + u for u in und]
        return nm, bool(alarms), lines
    finally:
        shutil.rmtree(tmp, ignore_errors=True)


def main():
    from concurrent.futures import ProcessPoolExecutor
    root = os.path.join(VERIF, "twins")
    names = sys.argv[1:] or sorted(d for d in os.listdir(root) if os.path.isdir(os.path.join(root, d)))
    bad = 0
    tally = {"silent": 0, "undecided": 0, "FALSE-ALARM": 0}
    with ProcessPoolExecutor(max_workers=min(16, os.cpu_count() or 4)) as ex:
        for nm, alarm, lines in ex.map(one, names):
            bad += alarm
            for l in lines:
                print(l)
            for k in tally:
                if lines and f" {k} " in lines[0]:
                    tally[k] += 1
    print(f"TOTAL {len(names)} twins: {tally['silent']} silent, {tally['undecided']} with undecided obligations, {tally['FALSE-ALARM']} accused")
    return 1 if bad else 0


if __name__ == "__main__":
    sys.exit(main())
