#!/venv/bin/python
"""Confirm a behaviour-preserving refactoring written by an independent sub-agent and store it under /verif/twins/<name>/:
the patch applies to a fresh scratch worktree of /repo, everything compiles, the whole suite passes, and equiv.py prints the
same digest before and after.  confirm_twin.py <property id> <dir with patch.diff + equiv.py> <name>"""
import json
import os
import shutil
import subprocess
import sys
import tempfile

PY = "/venv/bin/python"


def sh(cmd, cwd, timeout=3000):
    r = subprocess.run(cmd, cwd=cwd, shell=True, capture_output=True, text=True, timeout=timeout)
    return r.returncode, r.stdout, r.stderr


def main():
    prop, src, name = sys.argv[1:4]
    wt = tempfile.mkdtemp(prefix="gcmverif_twin_")
    os.rmdir(wt)
    try:
        rc, out, err = sh(f"git -C /repo worktree add -q --detach {wt} HEAD", "/")
        assert rc == 0, err
        patch, equiv = os.path.join(src, "patch.diff"), os.path.join(src, "equiv.py")
        # byte-compile first: compile-time SyntaxWarnings of the library (emitted once, when the .pyc is written) must not be
        # part of only ONE of the two digests
        sh(f"{PY} -m compileall -q gcmpy", wt)
        rc, before, err = sh(f"{PY} {equiv}", wt, 900)
        if rc != 0:
            print("REJECT: equiv.py fails on the original tree\n" + err[-400:])
            return 1
        rc, out, err = sh(f"git apply {patch}", wt)
        if rc != 0:
            print("REJECT: patch does not apply\n" + err[-400:])
            return 1
        rc, out, err = sh(f"{PY} -m compileall -q gcmpy", wt)
        if rc != 0:
            print("REJECT: does not compile")
            return 1
        rc, after, err = sh(f"{PY} {equiv}", wt, 900)
        if rc != 0 or after != before:
            print("REJECT: equiv.py output differs after the refactoring" if rc == 0 else "REJECT: equiv.py fails after the refactoring\n" + err[-400:])
            return 1
        rc, out, err = sh(f"{PY} -m pytest -q -p no:cacheprovider --timeout=900", wt)
        tail = (out.strip().splitlines() or [""])[-1]
        if rc != 0:
            print("REJECT: suite fails with the refactoring: " + tail)
            return 1
        dst = os.path.join("/verif/twins", name)
        os.makedirs(dst, exist_ok=True)
        for f in ("patch.diff", "equiv.py", "notes.md"):
            if os.path.exists(os.path.join(src, f)):
                shutil.copy(os.path.join(src, f), os.path.join(dst, f))
        json.dump({"property": prop, "twin": name, "origin": "behaviour-preserving refactoring written by an independent sub-agent (property text + scratch worktree only)",
                   "confirmed": {"suite": tail, "equiv_digest_identical": True, "digest_bytes": len(before)}}, open(os.path.join(dst, "meta.json"), "w"), indent=1)
        print(f"CONFIRMED twin {name}: suite `{tail}`; equiv digest identical ({len(before)} bytes)")
        return 0
    finally:
        subprocess.run(f"git -C /repo worktree remove --force {wt}", shell=True, capture_output=True)
        shutil.rmtree(wt, ignore_errors=True)


if __name__ == "__main__":
    sys.exit(main())
