#!/venv/bin/python
"""Run every property's quick check on a scratch copy of /repo/gcmpy with the given patch file(s) applied (one at a time).
usage: run_patch.py <patch.diff> [...]   - prints VIOLATED / UNDECIDED obligations; /repo is never touched."""
import contextlib, io, os, shutil, subprocess, sys, tempfile
VERIF = os.path.dirname(os.path.dirname(os.path.abspath(__file__)))
sys.path.insert(0, VERIF)
sys.dont_write_bytecode = True
import check as check_mod  # noqa: E402


def main():
    bad = 0
    for patch in sys.argv[1:]:
        tmp = tempfile.mkdtemp(prefix="gcmverif_patchrun_")
        try:
            shutil.copytree("/repo/gcmpy", os.path.join(tmp, "gcmpy"), ignore=shutil.ignore_patterns("__pycache__"))
            r = subprocess.run(["git", "apply", "--include=*/gcmpy/*", "--unsafe-paths", "--directory", tmp, os.path.abspath(patch)], capture_output=True, text=True, cwd=tmp)
            if r.returncode != 0:
                print(f"{patch}: does not apply: {r.stderr[:200]}")
                continue
            if subprocess.run(["diff", "-rq", "/repo/gcmpy", os.path.join(tmp, "gcmpy")], capture_output=True).returncode == 0:
                print(f"{patch}: changed nothing under gcmpy/")
                continue
            alarms, und = [], []
            for p in check_mod.ALL:
                with contextlib.redirect_stdout(io.StringIO()):
                    code, results = check_mod.run_property(p, tmp, "quick", write=False, quiet=True)
                for x in results:
                    if x.status == "VIOLATED" and not x.known:
                        alarms.append(f"{x.obligation} {x.function} ({x.where}): {x.reason[:int(os.environ.get("RP_W", "220"))]}")
                    elif x.status == "UNDECIDED":
                        und.append(f"{x.obligation} {x.function}: {x.reason[:140]}")
            bad += bool(alarms)
            print(f"{patch}: alarms={len(alarms)} undecided={len(und)}")
            for a in alarms:
                print("    ALARM " + a)
            for u in und:
                print("    und   " + u)
        finally:
            shutil.rmtree(tmp, ignore_errors=True)
    return 1 if bad else 0


if __name__ == "__main__":
    sys.exit(main())
