#!/venv/bin/python
"""Confirm a candidate seeded change independently of whoever wrote it:
  confirm_seed.py <property id> <dir with patch.diff + demo.py [+ notes.md]> <seed name> [--suite full|<pytest path> ...]
In a fresh scratch git worktree of /repo (under /tmp, removed afterwards): the patch applies, every file compiles,
the existing tests pass with it, demo.py fails with it and passes without it.  On success the candidate is stored
as /verif/seeded/<seed name>/ (patch.diff, demo.py, notes.md, meta.json)."""
import json
import os
import shutil
import subprocess
import sys
import tempfile
import time

PY = "/venv/bin/python"


def sh(cmd, cwd, timeout=1500):
    t = time.time()
    r = subprocess.run(cmd, cwd=cwd, shell=True, capture_output=True, text=True, timeout=timeout)
    return r.returncode, (r.stdout + r.stderr)[-1500:], time.time() - t


def main():
    prop, src, name = sys.argv[1:4]
    suite = sys.argv[5:] if len(sys.argv) > 4 and sys.argv[4] == "--suite" else ["full"]
    wt = tempfile.mkdtemp(prefix="gcmverif_confirm_")
    os.rmdir(wt)
    log = {"property": prop, "seed": name, "ran": []}
    try:
        rc, out, _ = sh(f"git -C /repo worktree add -q --detach {wt} HEAD", "/")
        assert rc == 0, out
        patch = os.path.join(src, "patch.diff")
        demo = os.path.join(src, "demo.py")
        rc, out, _ = sh(f"{PY} {demo}", wt, 900)
        log["ran"].append({"cmd": "demo.py on the original tree", "exit": rc})
        if rc != 0:
            print("REJECT: demo fails on the original tree\n" + out)
            return 1
        rc, out, _ = sh(f"git apply {patch}", wt)
        if rc != 0:
            print("REJECT: patch does not apply\n" + out)
            return 1
        rc, out, _ = sh(f"{PY} -m compileall -q gcmpy", wt)
        log["ran"].append({"cmd": "compileall gcmpy (with the change)", "exit": rc})
        if rc != 0:
            print("REJECT: does not compile\n" + out)
            return 1
        rc, out, _ = sh(f"{PY} {demo}", wt, 900)
        log["ran"].append({"cmd": "demo.py with the change", "exit": rc, "tail": out[-300:]})
        if rc == 0:
            print("REJECT: demo passes with the change")
            return 1
        target = "" if suite == ["full"] else " ".join(suite)
        rc, out, dt = sh(f"{PY} -m pytest -q -p no:cacheprovider --timeout=900 {target}", wt, 3000)
        log["ran"].append({"cmd": f"pytest {target or '(whole suite)'} with the change", "exit": rc, "seconds": round(dt), "tail": out.strip().splitlines()[-1] if out.strip() else ""})
        if rc != 0:
            print("REJECT: existing tests fail with the change\n" + out[-800:])
            return 1
        dst = os.path.join("/verif/seeded", name)
        os.makedirs(dst, exist_ok=True)
        shutil.copy(patch, os.path.join(dst, "patch.diff"))
        shutil.copy(demo, os.path.join(dst, "demo.py"))
        if os.path.exists(os.path.join(src, "notes.md")):
            shutil.copy(os.path.join(src, "notes.md"), os.path.join(dst, "notes.md"))
        meta = {"property": prop, "seed": name, "origin": "written by an independent sub-agent that saw only the property text and a scratch worktree",
                "confirmed": log["ran"], "needs_to_manifest": "see notes.md"}
        json.dump(meta, open(os.path.join(dst, "meta.json"), "w"), indent=1)
        print(f"CONFIRMED {name}: " + "; ".join(f"{r['cmd']} -> {r['exit']}" for r in log["ran"]))
        return 0
    finally:
        subprocess.run(f"git -C /repo worktree remove --force {wt}", shell=True, capture_output=True)
        shutil.rmtree(wt, ignore_errors=True)


if __name__ == "__main__":
    sys.exit(main())
