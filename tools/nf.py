#!/venv/bin/python
"""Debug aid: print the summariser's normal form of a repo function (or of `self.<attr>` after it).
usage: nf.py <repo-or-twin-name> <qualname> [attr]"""
import os, shutil, subprocess, sys, tempfile
VERIF = os.path.dirname(os.path.dirname(os.path.abspath(__file__)))
sys.path.insert(0, VERIF)
from gcmstatic.pm import Program
from gcmstatic import conform, tm

def main():
    repo, q = sys.argv[1], sys.argv[2]
    attr = sys.argv[3] if len(sys.argv) > 3 else None
    tmp = None
    if not os.path.isdir(repo):
        d = os.path.join(VERIF, "twins", repo)
        if not os.path.isdir(d):
            d = os.path.join(VERIF, "seeded", repo)
        tmp = tempfile.mkdtemp(prefix="gcmverif_nf_")
        shutil.copytree("/repo/gcmpy", os.path.join(tmp, "gcmpy"), ignore=shutil.ignore_patterns("__pycache__"))
        subprocess.run(["git", "apply", "--include=*/gcmpy/*", "--unsafe-paths", "--directory", tmp, os.path.join(d, "patch.diff")], check=True, cwd=tmp)
        repo = tmp
    try:
        p = Program(repo)
        for l in p.normalized:
            print("norm:", l)
        f = p.func(q)
        class O: pass
        o = O(); o.ctx = O(); o.ctx.prog = p
        inl = conform.helper_inlines(p, f, [])
        if attr:
            print(tm.show(conform.attr_term_of_node(f.node, attr, None, inl)))
        else:
            print(tm.show(conform.term_of_fn(f, None, inl)))
    finally:
        if tmp:
            shutil.rmtree(tmp, ignore_errors=True)
main()
