#!/venv/bin/python
"""Regenerates /verif/MANIFEST.json from the table below (only properties whose check module exists are
claimed; the rest are listed under not_applicable with the reason 'not yet built' while the build is in
progress)."""
import json
import os

VERIF = os.path.dirname(os.path.dirname(os.path.abspath(__file__)))

STRUCT = ("decides the structural clauses listed in DESIGN.md section 5 on every path / for every input at once; ")

TABLE = {
    "C01": dict(tech="shape rules over the stub plumbing, index coherence, effects, dispatch-table conformance (ast)",
                text=STRUCT + "sufficient for the statement under the listed library summaries", ref="5 C01"),
    "C02": dict(tech="path-sensitive symbolic column lengths, must-once id draw, monotone counter (ast + CFG)",
                text=STRUCT + "sufficient for the statement given the naming-callback contract", ref="5 C02"),
    "C03": dict(tech="dominance: in-place shuffle of every stub list before grouping; alias and effect rules (CFG)",
                text="decides the structural premise (every stub list passes random.shuffle once, in place, before grouping) from which the distributional statement follows with the library RNG trusted; measures nothing", ref="5 C03"),
    "C04": dict(tech="dominance (nodes before annotation), writer/reader provenance tables against the spec table",
                text=STRUCT + "sufficient for the statement given networkx add_*/set_*_attributes", ref="5 C04"),
    "C05": dict(tech="provenance of the weighted draw, term conformance of the patch count, effects, kinds",
                text=STRUCT + "sufficient for the statement given random.choices/randrange", ref="5 C05"),
    "C06": dict(tech="definite assignment along constructor chains (K1), term conformance, dispatch table, re-runnable create_jdd",
                text=STRUCT + "sufficient for manual/empirical/marginal-direct/function loaders; sampling mode: structural premise only", ref="5 C06"),
    "C07": dict(tech="loop-carried kill of the shared table, recursion premises, term conformance",
                text=STRUCT + "sufficient for the statement", ref="5 C07"),
    "C08": dict(tech="stale-index-after-shrink rule, kinds of tabulated rows, counting term",
                text=STRUCT + "sufficient for the statement", ref="5 C08"),
    "C09": dict(tech="loop-exit fact, append=>remove pairing on all paths, sortedness before de-duplication, size-bound guard",
                text="decides necessary structural clauses (graph empty on return, chosen cliques' edges removed before re-enumeration, size bound, canonicalise-before-dedupe); does NOT decide exactness of the greedy cover for every graph", ref="5 C09"),
    "C10": dict(tech="effects (only labels written to the input), sort order, test-set = claim-set, label term",
                text=STRUCT + "sufficient for the statement given enumerate_all_cliques and stable sorted", ref="5 C10"),
    "C11": dict(tech="effects on the input network, provenance of inherited motif id, guard presence, add/remove pairing, kinds",
                text=STRUCT + "per-swap invariant + induction; the motif-id clause is a recorded known finding (D11)", ref="5 C11"),
    "C12": dict(tech="sibling accessor agreement with the feed order, provenance of numerator keys, handler must-reject, ratio orientation",
                text="decides the first sentence (no forbidden pairing is manufactured); the second sentence (distance decreases) is statistical and not decided, only the Metropolis ratio's shape", ref="5 C12"),
    "C13": dict(tech="upward-exposed accumulation (per-query state), term conformance of increments, symmetry of the two stores",
                text=STRUCT + "sufficient for the statement", ref="5 C13"),
    "C14": dict(tech="term conformance of each routine with its formula, key provenance (no constant keys)",
                text=STRUCT + "each routine is the formula the statement names; cross-module identities follow by algebra on paper; float error not decided", ref="5 C14"),
    "C15": dict(tech="taint (cache purity w.r.t. phi/u), cache-key completeness, factor-structure terms, enumeration skeleton",
                text="decides the history-independence sentence (sufficient) and necessary structure of the sum; the polynomial identity with the expectation is NOT decided", ref="5 C15"),
    "C16": dict(tech="formula conformance of the code with the published closed forms / recursion (term normal forms)",
                text="decides code = published formula for all parameters; the identity between those formulas and the expectation is trusted literature", ref="5 C16"),
    "C17": dict(tech="state discipline (written-before-read per query), once-per-motif guards, bookkeeping terms",
                text="decides the history-independence sentence and the bookkeeping shape; fixed-point convergence, range and monotonicity are numerical and NOT decided", ref="5 C17"),
    "C18": dict(tech="effects (copy discipline), comparison orientation by term normal form, per-edge draw placement, ratio shape",
                text="decides the structural premise from which the statement follows with random.random trusted", ref="5 C18"),
    "C19": dict(tech="external attribute resolution (K2), closed-form term conformance, truncated-series idiom on the CFG",
                text=STRUCT + "each factory is the named formula with the named truncated normaliser; float evaluation not decided", ref="5 C19"),
    "C20": dict(tech="encapsulation (who-may-access), Hoare-premise checks per method, raise-before-mutate dominance",
                text="decides the whole statement for this implementation strategy (array + index map, swap-remove): the premises of four short Hoare arguments are checked on the source, so the result holds for every history", ref="5 C20"),
}

NOTE = ("static rule checking over the parsed source of /repo (stdlib ast + networkx dominators); trusted: CPython's ast module, the library "
        "summaries and callback-purity assumptions listed in each evidence file under trusted_base; rules recognise the implementation "
        "strategies present today plus the twins in /verif/selftest: an unrecognised rewrite gives exit 2 (ANALYSIS-ERROR), never a VIOLATION")


def main():
    checks, na = [], []
    for pid in sorted(TABLE):
        t = TABLE[pid]
        if os.path.exists(os.path.join(VERIF, "checks", pid.lower() + ".py")):
            checks.append({
                "property_id": pid,
                "quick_cmd": f"/venv/bin/python /verif/check.py {pid} --tier quick",
                "thorough_cmd": f"/venv/bin/python /verif/check.py {pid} --tier thorough",
                "evidence_file": f"/verif/evidence/{pid}.json",
                "replay_cmd_template": f"/venv/bin/python /verif/check.py {pid} --replay {{path}}",
                "engine": "gcmstatic",
                "level_claimed": {"category": "other", "text": t["text"], "design_ref": "DESIGN.md section " + t["ref"]},
                "level_note": NOTE,
                "technique": "static analysis: " + t["tech"],
            })
        else:
            na.append({"property_id": pid, "reason": "check not built yet (build in progress); see DESIGN.md section 5 for the planned static rules"})
    man = {
        "version": 1,
        "setup_cmd": "/venv/bin/python -c \"import ast, networkx\"",
        "hooks": {
            "guard": "PETERSTANDREWS_GCMPY_VERIF",
            "enable": "no hooks: the analysis parses /repo's source and never runs it; the guard is declared for the schema and is unused",
            "baseline_off_cmd": "cd /repo && /venv/bin/python -m pytest -ra -q -p no:cacheprovider --timeout=900 --continue-on-collection-errors",
            "source_commits": [],
            "add_only": True,
        },
        "engines": [{"name": "gcmstatic", "path": "/verif/gcmstatic", "serves_properties": [c["property_id"] for c in checks],
                     "kind_free_text": "repository-specific static analysis: program model, statement CFG + dominators, effects, term normaliser, pattern rules"}],
        "checks": checks,
        "notes": "All checks are static (they parse /repo/gcmpy on every run and never import or execute it). Genuine defects found: 13 repaired by fix: commits in /repo, 1 recorded (two call sites) in /verif/known_findings.json. See DESIGN.md.",
        "not_applicable": na,
    }
    with open(os.path.join(VERIF, "MANIFEST.json"), "w") as fh:
        json.dump(man, fh, indent=1)
    print(f"{len(checks)} checks, {len(na)} not yet claimed")


if __name__ == "__main__":
    main()
