#!/venv/bin/python
"""Debug aid: print the normalised source of repo functions after applying a patch to a scratch copy.
usage: show_norm.py <patch.diff|-> <qualname-substring> [...]   ('-' = the unchanged tree)"""
import ast, os, shutil, subprocess, sys, tempfile
VERIF = os.path.dirname(os.path.dirname(os.path.abspath(__file__)))
sys.path.insert(0, VERIF)
sys.dont_write_bytecode = True
from gcmstatic.pm import Program  # noqa: E402


def main():
    patch = sys.argv[1]
    tmp = tempfile.mkdtemp(prefix="gcmverif_shownorm_")
    try:
        shutil.copytree("/repo/gcmpy", os.path.join(tmp, "gcmpy"), ignore=shutil.ignore_patterns("__pycache__"))
        if patch != "-":
            subprocess.run(["git", "apply", "--include=*/gcmpy/*", "--unsafe-paths", "--directory", tmp, os.path.abspath(patch)], check=True, cwd=tmp)
        p = Program(tmp)
        for l in p.normalized:
            print("norm:", l)
        for want in sys.argv[2:]:
            for q, f in p.functions.items():
                if want in q:
                    print(f"# ---- {q}")
                    print(ast.unparse(f.node))
    finally:
        shutil.rmtree(tmp, ignore_errors=True)


main()
