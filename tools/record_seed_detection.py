#!/venv/bin/python
"""Evaluate every seeded change with its own property's check and record the outcome in its meta.json
(`detected_by`: obligations that report a VIOLATION, or `not_detected` with the check's exit status)."""
import json
import os
import sys

VERIF = os.path.dirname(os.path.dirname(os.path.abspath(__file__)))
sys.path.insert(0, VERIF)
sys.path.insert(0, os.path.join(VERIF, "tools"))
import run_seeded  # noqa: E402


def main():
    root = os.path.join(VERIF, "seeded")
    for d in sorted(os.listdir(root)):
        mp = os.path.join(root, d, "meta.json")
        if not os.path.exists(mp):
            continue
        meta = json.load(open(mp))
        r = run_seeded.run_one(os.path.join(root, d), "/repo", [meta["property"]])
        own = r.get("flagged_by", {}).get(meta["property"], {})
        meta.pop("detected_by", None)
        meta.pop("not_detected", None)
        if own.get("exit") == 1:
            meta["detected_by"] = own["violated"]
            meta["first_report"] = own["first"]
        else:
            meta["not_detected"] = {"exit": own.get("exit", 0), "undecided": own.get("undecided", [])}
        json.dump(meta, open(mp, "w"), indent=1)
        print(d, "->", meta.get("detected_by") or meta.get("not_detected"))


if __name__ == "__main__":
    main()
