#!/venv/bin/python
"""Write selftest/mutgen_triage.json: the mechanical-mutation survivors that were examined by hand, each with the reason why
it is equivalent to the original or outside the property (the classes below were read one by one on the pinned tree; the
patterns only spare typing the same reason fifty times).  A survivor that matches no class stays OPEN and is listed.
usage: gen_mutgen_triage.py [--jobs N]     (re-run only after the pinned tree or mutgen's operators change)"""
import json
import os
import re
import sys

VERIF = os.path.dirname(os.path.dirname(os.path.abspath(__file__)))
sys.path.insert(0, VERIF)
sys.dont_write_bytecode = True
from selftest import mutgen  # noqa: E402

CLASSES = [
    # (regex on "function|mutation", reason)
    (r"swapargs: `([\w.]+\.)?(has_edge|remove_edge|add_edge)\(", "symmetric operation on an undirected graph: equivalent"),
    (r"^EECC\.limited_maximal_cliques\|cmp: `clique_size > self\._m0` -> `clique_size >= self\._m0`", "a clique of exactly m0 vertices decomposes into itself: equivalent (independent differential audit, DESIGN 10.7 (d))"),
    (r"^EECC\.limited_maximal_cliques\|delstmt: `C\[c\] = sorted\(C\[c\]\)`", "maximal cliques kept whole are distinct vertex sets and everything is sorted after the de-duplication: equivalent (differential run, DESIGN 10.7 (d))"),
    (r"^AutomatedEquation\.get_edge_combinations\|const-: `1` -> `0`", "subset sizes 0..E-1: the full subset never leaves a component of two or more vertices connected: equivalent (independent differential audit)"),
    (r"^MessagePassing\.calculate_H_tau\|delstmt: `continue` -> `pass`", "the focal vertex's own product only becomes the root's `u`, which the equation never reads: equivalent (independent differential audit)"),
    (r"swapargs: `self\._MPM\.get_edge_cover_label\(", "the label is an attribute of the undirected edge {i, j}: equivalent"),
    (r"swapargs: `zip\((e0s, e1s|a, b)\)`", "both orders pair the same elements and the body is symmetric in them (motif ids compared / undirected edge built): equivalent"),
    (r"swapargs: `max\(0,", "max is symmetric: equivalent"),
    (r"swapargs:", "the swapped arguments have different types: the call raises (TypeError / AttributeError / KeyError) instead of returning a wrong value - loud, not a silent violation"),
    (r"bin: `[^`]*\+ 0\.0` -> `[^`]*- 0\.0`", "x + 0.0 and x - 0.0 are the same float: equivalent"),
    (r"cmp: `[^`]*random\.random\(\)[^`]*`", "differs only when the uniform draw hits the bound exactly (probability 2^-53): not observable as a law"),
    (r"cmp: `abs\(term\) < tol`", "differs only when a term equals the tolerance exactly: the truncated sum changes by one term of size tol (below the stated accuracy)"),
    (r"(zeta|polylog):\d*\|?.*const[+-]: `1` -> `[02]`", None),     # placeholder, resolved below by line content
    (r"^JointDegree\.__new__\|", "abstract-class guard: with the test inverted every loader fails to instantiate (TypeError) - loud"),
    (r"cmp: `key in self\._(connected_subgraphs|edge_combinations)`", "inverted cache test: the first evaluation raises KeyError - loud"),
    (r"AutomatedEquation\.automated_equation\|delstmt: `continue`", "`continue` is the last statement of its branch in the edge classification chain: equivalent"),
    (r"^MarkovChainMonteCarloRewiring\.(rewire|__init__)\|(const|cmp|bool|bin|aug|delstmt)", "search limit, convergence counter, sampling interval or acceptance-ratio diagnostics: they decide how long the chain runs and what is logged, not what an accepted swap preserves or which pairings it may create"),
    (r"^MarkovChainMonteCarloRewiring\.swap_condition\|(cmp: `bottom == 0\.0`|const.: `0\.0` -> `1\.0`)", "guards of degenerate weights (zero numerator is rejected by the ratio test anyway; zero denominator raises): equivalent or loud"),
    (r"^(MessagePassing|JointDegreeMarginal|JointDegreeFunction)\.__init__\|const", "numeric default (iterations, sample count, degree bounds): documented blind spot, section 7"),
    (r"^EECC\.__init__\|const", "default size bound: numeric default, section 7"),
    (r"^(EECC\.compute_scores|binom)\|", "EECC scoring heuristic: any scores give a cover; which one is not part of C09 (section 7)"),
    (r"^EECC\.get_EECC\|(bin: `\[0(\.0)?\] \*|bin: `set\(range)", "list / set arithmetic with the wrong operator raises TypeError - loud"),
    (r"^EECC\.get_EECC\|const.: `0(\.0)?` -> `1(\.0)?`", "initial order / score values are overwritten or shifted uniformly by compute_scores: heuristic only"),
    (r"^EECC\.get_EECC\|delstmt: `(Ctemp|ordtemp|rtemp)\.append", "breaks the lock-step of the pre-loop filtering: the first `C[idx]` / `ord[idx]` raises IndexError - loud (the in-loop filtering is covered by C09.2)"),
    (r"^EECC\.get_EECC\|(const|cmp)", "tie-breaking among minimum-score candidates / initial maximum: heuristic choice of the next clique, every choice keeps the cover edge-disjoint"),
    (r"^EECC\.set_max_clique_size\|", "the bound stays at its default 2 <= m0: the cover is still within the requested bound (coarser, not wrong)"),
    (r"^EECC\.limited_maximal_cliques\|delstmt: `C\.append\(nc\)`", "oversized cliques are never decomposed: get_EECC does not terminate / raises - loud"),
    (r"^EECC\.limited_maximal_cliques\|delstmt: `C\[i\] = sorted\(c\)`", "final presentation order inside a clique (the canonicalisation before de-duplication, C09.4, is a different statement): equivalent for C09"),
    (r"^Network\.(add_edge|add_edges_from|remove_edge)\|", "Network's own edge methods are not used by the converters (C04); they are C09's subject and killed there"),
    (r"^MPCC\|delstmt: `shuffle\(cliques\)`", "randomisation of ties among equal-size cliques is not a clause of C10"),
    (r"^MPCC\|delstmt: `break`", "the flag is already set: equivalent"),
    (r"^MPCC\|const.: `0` -> `1`", "ids start at 1 instead of 0: still unique per clique"),
    (r"^(Q|QQ)\|bin: `[^`]*// 2` -> `[^`]*/ 2`", "the same value as a float (exact at these magnitudes); where an int is required range() raises - loud"),
    (r"^number_of_connected_graphs\|", None),
    (r"^JointDegreeManual\.__init__\|delstmt: `self\.create_jdd\(\)`", "JointDegreeManual.create_jdd is a no-op: equivalent"),
    (r"^JointDegreeDistribution\.load_joint_degree\|delstmt: `loader\.create_jdd\(\)`", "every loader's constructor has already called create_jdd(): the second call is redundant - equivalent"),
    (r"^JointDegreeMarginal\.create_jdd_directly\|const", "initial value of every key is overwritten in the loop that follows: equivalent"),
    (r"^JointDegreeMarginal\.draw_from_analytical_joint\|const-: `1` -> `0`", "inclusive / exclusive upper bound of the sampling range: both conventions are accepted as correct spellings (C06.5 lists both references)"),
    (r"^JointExcessJointDegree\.__init__\|delstmt: `self\._ejks = None`", "the attribute is assigned again before its first read (get_ejks): equivalent"),
    (r"^JointExcessJointDegreeMatrices\.__init__\|", "constructor path with a parameter dict, not used inside the library (matrices are filled through the property setters): outside C13 / C14"),
    (r"^JointDegreeFromExcess\.get_joint_degree_distribution\|const.: `0` -> `1`", "another reference topology / common key: the merged distribution is the same after renormalisation"),
    (r"^JointDegreeFromExcess\.get_joint_degree_distribution\|delstmt: `continue`", "the reference topology is rescaled by factor 1: equivalent"),
    (r"^JointDegreeFromExcess\.get_joint_degree_distribution\|not:", "mutgen artefact on the emptiness test of the common keys: with it inverted the function raises for every valid input - loud"),
    (r"^GCMAlgorithmCustomMotifs\.random_clustered_graph\|const.: `0` -> `1`", "es[0] -> es[1]: both elements of a bare pair are ints: equivalent"),
    (r"^(cycle_motif|diamond_motif)\|", "zip(a, b) vs zip(b, a): the same undirected edges; the vertex-count guard raising for a valid diamond is loud"),
    (r"^MessagePassing\.calculate_H_tau\|const", None),
    (r"^bond_percolate\|", "differs only when the uniform draw equals phi exactly: not observable as a law"),
    (r"^scale_free_cut_off\.p\|bin: `k \+ 0\.0`", "k + 0.0 and k - 0.0 are the same float: equivalent"),
]


def main():
    jobs = int(sys.argv[sys.argv.index("--jobs") + 1]) if "--jobs" in sys.argv else 16
    out = {}
    open_ = []
    for i in range(1, 21):
        prop = f"C{i:02d}"
        # run without triage to see all survivors
        saved = mutgen.load_triage
        mutgen.load_triage = lambda: {}
        try:
            r = mutgen.sweep(prop, "/repo", jobs, 600)
        finally:
            mutgen.load_triage = saved
        for s in r.get("open", []):
            key = f"{s['function']}|{s['mutation']}"
            reason = None
            for rx, why in CLASSES:
                if re.search(rx, key):
                    reason = why
                    if why is not None:
                        break
            if reason is None and re.search(r"(zeta|polylog)\|const.: `1` -> `[02]`", key):
                reason = "`while 1:` -> `while 2:` (the loop header constant): equivalent"
            if reason:
                out.setdefault(prop, {})[key] = reason
            else:
                open_.append((prop, s["line"], key))
        print(f"{prop}: {r.get('survived')} survivors, {len(out.get(prop, {}))} triaged", flush=True)
    json.dump(out, open(os.path.join(VERIF, "selftest", "mutgen_triage.json"), "w"), indent=1, sort_keys=True)
    print(f"open: {len(open_)}")
    for o in open_:
        print("   OPEN", o)


if __name__ == "__main__":
    main()
