#!/venv/bin/python
"""Debug aid: run one property's quick check verbosely on a scratch copy with a twin / seeded patch applied.
usage: on_patch.py <twin-or-seed-name> <Cnn> [--only OBL]"""
import os, shutil, subprocess, sys, tempfile
VERIF = os.path.dirname(os.path.dirname(os.path.abspath(__file__)))
sys.path.insert(0, VERIF)
import check as check_mod

def main():
    name, prop = sys.argv[1], sys.argv[2]
    only = sys.argv[4] if len(sys.argv) > 4 and sys.argv[3] == "--only" else None
    d = os.path.join(VERIF, "twins", name)
    if not os.path.isdir(d):
        d = os.path.join(VERIF, "seeded", name)
    tmp = tempfile.mkdtemp(prefix="gcmverif_onpatch_")
    try:
        shutil.copytree("/repo/gcmpy", os.path.join(tmp, "gcmpy"), ignore=shutil.ignore_patterns("__pycache__"))
        subprocess.run(["git", "apply", "--include=*/gcmpy/*", "--unsafe-paths", "--directory", tmp, os.path.join(d, "patch.diff")], check=True, cwd=tmp)
        code, results = check_mod.run_property(prop, tmp, "quick", write=False, quiet=True, only=only)
        for r in results:
            if only and not r.obligation.startswith(only):
                continue
            print(f"{r.status:9s} {r.obligation} {r.function} ({r.where}): {r.reason[:300]}")
        print("exit", code)
    finally:
        shutil.rmtree(tmp, ignore_errors=True)
main()
