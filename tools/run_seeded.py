#!/venv/bin/python
"""Run the checks against the seeded breaking changes kept under /verif/seeded/<id>/.

For every seeded change: copy /repo/gcmpy to a scratch directory (tempfile, outside /repo and /verif, removed
afterwards), apply patch.diff there, run every property's quick check on the scratch tree (check.py --repo,
nothing is written to /verif/evidence) and report which checks raise a VIOLATION.  /repo itself is never
touched.  Usage: run_seeded.py [seed-id ...] [--all-props] [--json OUT]"""
import argparse
import contextlib
import io
import json
import os
import shutil
import subprocess
import sys
import tempfile

VERIF = os.path.dirname(os.path.dirname(os.path.abspath(__file__)))
sys.path.insert(0, VERIF)
sys.dont_write_bytecode = True
import check as check_mod  # noqa: E402


def run_one(seed_dir, repo, props):
    meta = json.load(open(os.path.join(seed_dir, "meta.json")))
    tmp = tempfile.mkdtemp(prefix="gcmverif_seed_")
    try:
        shutil.copytree(os.path.join(repo, "gcmpy"), os.path.join(tmp, "gcmpy"), ignore=shutil.ignore_patterns("__pycache__"))
        r = subprocess.run(["git", "apply", "--include=*/gcmpy/*", "--unsafe-paths", "--directory", tmp, os.path.join(seed_dir, "patch.diff")], capture_output=True, text=True, cwd=tmp)
        if r.returncode != 0:
            r = subprocess.run(["patch", "-p1", "-i", os.path.join(seed_dir, "patch.diff")], capture_output=True, text=True, cwd=tmp)
            if r.returncode != 0:
                return {"seed": os.path.basename(seed_dir), "property": meta.get("property"), "error": "patch does not apply: " + (r.stderr or r.stdout)[:300]}
        out = {}
        for p in props:
            buf = io.StringIO()
            with contextlib.redirect_stdout(buf):
                code, results = check_mod.run_property(p, tmp, "quick", write=False, quiet=True)
            viol = sorted({f"{x.obligation}" for x in results if x.status == "VIOLATED" and not x.known})
            und = sorted({f"{x.obligation}" for x in results if x.status == "UNDECIDED"})
            if code != 0:
                out[p] = {"exit": code, "violated": viol, "undecided": und,
                          "first": next((f"{x.obligation} {x.function} ({x.where}): {x.reason[:160]}" for x in results if x.status == "VIOLATED" and not x.known), "")}
        return {"seed": os.path.basename(seed_dir), "property": meta.get("property"), "flagged_by": out}
    finally:
        shutil.rmtree(tmp, ignore_errors=True)


def main():
    ap = argparse.ArgumentParser()
    ap.add_argument("seeds", nargs="*")
    ap.add_argument("--repo", default="/repo")
    ap.add_argument("--own-only", action="store_true", help="run only the seeded property's own check")
    ap.add_argument("--json")
    a = ap.parse_args()
    root = os.path.join(VERIF, "seeded")
    seeds = a.seeds or sorted(d for d in os.listdir(root) if os.path.isdir(os.path.join(root, d)))
    res = []
    missed = 0
    for s in seeds:
        d = os.path.join(root, s)
        meta = json.load(open(os.path.join(d, "meta.json")))
        props = [meta["property"]] if a.own_only else check_mod.ALL
        r = run_one(d, a.repo, props)
        res.append(r)
        fb = r.get("flagged_by", {})
        own = fb.get(r["property"], {})
        caught = own.get("exit") == 1
        others = [p for p, v in fb.items() if v["exit"] == 1 and p != r["property"]]
        status = "CAUGHT" if caught else ("caught-by-other" if others else ("UNDECIDED" if own.get("exit") == 2 else "MISSED"))
        if not caught:
            missed += 1
        print(f"{s:28s} property={r['property']} {status:16s} own={own.get('violated', [])} und={own.get('undecided', [])} others={others} {r.get('error', '')}")
        if caught:
            print(f"    {own['first']}")
    if a.json:
        json.dump(res, open(a.json, "w"), indent=1)
    return 0


if __name__ == "__main__":
    sys.exit(main())
