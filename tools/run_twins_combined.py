#!/venv/bin/python
"""Apply as many of the confirmed refactoring twins as fit together (greedy, in the given order / reversed / shuffled) to
ONE scratch copy and run every check: a whole-package clean-up instead of one file at a time.  A VIOLATION is a false alarm."""
import contextlib, io, os, random, shutil, subprocess, sys, tempfile
VERIF = os.path.dirname(os.path.dirname(os.path.abspath(__file__)))
sys.path.insert(0, VERIF)
sys.dont_write_bytecode = True
import check as check_mod  # noqa: E402


def run(order, label):
    tmp = tempfile.mkdtemp(prefix="gcmverif_combo_")
    try:
        shutil.copytree("/repo/gcmpy", os.path.join(tmp, "gcmpy"), ignore=shutil.ignore_patterns("__pycache__"))
        applied = []
        for nm in order:
            p = os.path.join(VERIF, "twins", nm, "patch.diff")
            r = subprocess.run(["git", "apply", "--include=*/gcmpy/*", "--unsafe-paths", "--directory", tmp, p], capture_output=True, text=True, cwd=tmp)
            if r.returncode == 0:
                applied.append(nm)
        r = subprocess.run(["/venv/bin/python", "-m", "compileall", "-q", os.path.join(tmp, "gcmpy")], capture_output=True, text=True)
        alarms, und = [], 0
        for pr in check_mod.ALL:
            with contextlib.redirect_stdout(io.StringIO()):
                code, results = check_mod.run_property(pr, tmp, "quick", write=False, quiet=True)
            for x in results:
                if x.status == "VIOLATED" and not x.known:
                    alarms.append(f"{x.obligation} {x.function} ({x.where}): {x.reason[:200]}")
                elif x.status == "UNDECIDED":
                    und += 1
        print(f"{label}: {len(applied)} twins applied together (compile rc={r.returncode}); alarms={len(alarms)} undecided={und}")
        for a in alarms:
            print("    ALARM " + a)
        return len(alarms)
    finally:
        shutil.rmtree(tmp, ignore_errors=True)


def main():
    names = sorted(d for d in os.listdir(os.path.join(VERIF, "twins")) if os.path.isdir(os.path.join(VERIF, "twins", d)))
    bad = run(names, "sorted")
    bad += run(names[::-1], "reversed")
    rnd = random.Random(7)
    for i in range(4):
        o = names[:]
        rnd.shuffle(o)
        bad += run(o, f"shuffle{i}")
    return 1 if bad else 0


if __name__ == "__main__":
    sys.exit(main())
